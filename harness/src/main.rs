//! vcheck – front end of the model-checking harness for passkey-rs.
//!   vcheck <Cxx> [--tier quick|thorough] [--replay <file>]
//! exit 0: property held on everything explored (KNOWN-FINDING lines allowed)
//! exit 1: `VIOLATION property=<id> replay=<path>` for every finding not listed as known
//! exit 2: machinery failure – never a verdict
mod core;
mod drivers;
mod oracles;
mod props;

use crate::core::report::*;
use std::collections::BTreeSet;
use std::path::PathBuf;
use std::time::Instant;

#[global_allocator]
static GLOBAL: crate::core::alloc::Counting = crate::core::alloc::Counting;

/// A `log` backend that accepts every record and renders it into nothing.  With the maximum level
/// at Off (default) the library's log statements are not evaluated at all; the *log pass* raises
/// it to Trace, so every argument expression of every log statement runs.
struct SinkLogger;
impl log::Log for SinkLogger {
    fn enabled(&self, _: &log::Metadata) -> bool {
        true
    }
    fn log(&self, record: &log::Record) {
        let s = format!("{}", record.args());
        std::hint::black_box(s);
    }
    fn flush(&self) {}
}
static LOGGER: SinkLogger = SinkLogger;
/// checks whose subject can reach a log statement of the library (or could, were one added: the
/// cheap enumerations run the pass too)
const LOG_PASS: [&str; 18] = ["C01", "C10", "C13", "C14", "C02", "C03", "C04", "C05", "C06", "C07", "C08", "C09", "C11", "C15", "C16", "C17", "C18", "C19"];
/// checks whose ceremonies are run once more with a user who takes an hour to answer every prompt
const SLOW_PASS: [&str; 8] = ["C02", "C03", "C04", "C07", "C08", "C09", "C11", "C17"];
/// checks that drive the WebAuthn client: repeated with the request members nothing speaks of
/// (timeout, hints) set - see drivers::set_ambient_members
const MEMBERS_PASS: [&str; 7] = ["C01", "C02", "C03", "C04", "C07", "C09", "C11"];
/// checks whose subject can be used by several OS threads at once
const THREAD_PASS: [&str; 5] = ["C01", "C02", "C03", "C10", "C19"];
/// build variant of this binary: "" = default features, optimised, debug assertions and overflow
/// checks on; or the library's optional cargo feature; or the optimised build without assertions
pub fn variant() -> &'static str {
    if cfg!(feature = "b64bytes") {
        "serialize_bytes_as_base64_string"
    } else if !cfg!(debug_assertions) {
        "no-debug-assertions"
    } else {
        ""
    }
}
fn set_trace(on: bool) {
    log::set_max_level(if on { log::LevelFilter::Trace } else { log::LevelFilter::Off });
    // isolated worker processes inherit the setting
    if on {
        std::env::set_var("VERIF_LOG", "trace");
    } else {
        std::env::remove_var("VERIF_LOG");
    }
}

fn machinery(msg: &str) -> ! {
    eprintln!("MACHINERY-ERROR: {msg}");
    std::process::exit(2)
}

fn main() {
    crate::core::par::install_panic_hook();
    let _ = log::set_logger(&LOGGER);
    log::set_max_level(if std::env::var("VERIF_LOG").as_deref() == Ok("trace") { log::LevelFilter::Trace } else { log::LevelFilter::Off });
    crate::drivers::slow_user_from_env();
    let args: Vec<String> = std::env::args().skip(1).collect();
    if args.first().map(|s| s.as_str()) == Some("--child") {
        // --child <prop> <mode> <tier> <lo..hi> <skip,csv> <every> <stack_mb>
        if args.len() < 8 {
            machinery("bad --child invocation");
        }
        let tier = if args[3] == "thorough" { Tier::Thorough } else { Tier::Quick };
        let (lo, hi) = args[4].split_once("..").unwrap_or(("0", "0"));
        let skip: BTreeSet<usize> = args[5].split(',').filter_map(|s| s.parse().ok()).collect();
        crate::core::alloc::refuse_absurd_requests(true);
        let space = match props::iso_space(&args[1], &args[2], tier) {
            Some(s) => s,
            None => machinery("unknown iso space"),
        };
        crate::core::iso::child_main(space.as_ref(), lo.parse().unwrap_or(0), hi.parse().unwrap_or(0), &skip, args[6].parse().unwrap_or(1000), args[7].parse().unwrap_or(8));
    }
    let mut id = None;
    let mut tier = match std::env::var("VERIF_TIER").ok().as_deref() {
        Some("thorough") => Tier::Thorough,
        _ => Tier::Quick,
    };
    let mut replay: Option<PathBuf> = None;
    let mut i = 0;
    while i < args.len() {
        match args[i].as_str() {
            "--tier" => {
                i += 1;
                tier = match args.get(i).map(|s| s.as_str()) {
                    Some("quick") => Tier::Quick,
                    Some("thorough") => Tier::Thorough,
                    _ => machinery("--tier quick|thorough"),
                };
            }
            "--replay" => {
                i += 1;
                let p = PathBuf::from(args.get(i).cloned().unwrap_or_else(|| machinery("--replay <file>")));
                // relative paths are relative to where the wrapper was called from
                replay = Some(match (p.is_relative(), std::env::var("VCHECK_CWD")) {
                    (true, Ok(cwd)) => PathBuf::from(cwd).join(p),
                    _ => p,
                });
            }
            s if id.is_none() => id = Some(s.to_string()),
            s => machinery(&format!("unexpected argument {s}")),
        }
        i += 1;
    }
    let id = id.unwrap_or_else(|| machinery("usage: vcheck <Cxx> [--tier quick|thorough] [--replay file]"));
    let root = PathBuf::from(std::env::var("VERIF_ROOT").unwrap_or_else(|_| "/verif".into()));
    let seed = std::env::var("VERIF_SEED").ok().and_then(|s| s.parse().ok()).unwrap_or(0u64);
    let threads = std::env::var("VERIF_THREADS").ok().and_then(|s| s.parse().ok()).unwrap_or_else(|| std::thread::available_parallelism().map(|n| n.get()).unwrap_or(4));
    let ctx = Ctx { id: id.clone(), tier, seed, threads, root: root.clone(), start: Instant::now() };
    let Some(prop) = props::lookup(&id) else { machinery(&format!("unknown property {id}")) };
    let known = KnownFindings::load(&root).unwrap_or_else(|e| machinery(&e));

    if let Some(path) = replay {
        let text = std::fs::read_to_string(&path).unwrap_or_else(|e| machinery(&format!("read {}: {e}", path.display())));
        let v: serde_json::Value = serde_json::from_str(&text).unwrap_or_else(|e| machinery(&format!("parse {}: {e}", path.display())));
        let want = v["key"].as_str().unwrap_or("").to_string();
        if v["variant"].as_str().unwrap_or("") != variant() {
            machinery(&format!("this replay file belongs to the build variant {:?}, this binary is {:?} (use the /verif/vcheck wrapper)", v["variant"].as_str().unwrap_or(""), variant()));
        }
        let fs = replay_case(&prop, &ctx, &v["case"]).unwrap_or_else(|e| machinery(&format!("replay: {e}")));
        let mut hit = false;
        for f in &fs {
            println!("replayed finding key={} detail={}", f.key, f.detail);
            if f.key == want {
                hit = true;
            }
        }
        if hit {
            match known.lookup(&id, &want) {
                Some(d) => {
                    println!("KNOWN-FINDING: property={id} key={want} {d}");
                    std::process::exit(0)
                }
                None => {
                    println!("VIOLATION property={id} replay={}", path.display());
                    std::process::exit(1)
                }
            }
        }
        println!("replay of {} did not reproduce key={want} ({} other findings)", path.display(), fs.len());
        std::process::exit(if fs.iter().any(|f| known.lookup(&id, &f.key).is_none()) { 1 } else { 0 });
    }

    // the passes (log, slow user, environment) repeat the exploration in another *mode*; in the
    // thorough tier they repeat the quick tier's exploration (the depth is the first run's business)
    let pass_ctx = Ctx { id: ctx.id.clone(), tier: Tier::Quick, seed: ctx.seed, threads: ctx.threads, root: ctx.root.clone(), start: ctx.start };
    let mut run = match crate::core::par::catch(|| (prop.run)(&ctx)) {
        Ok(Ok(r)) => r,
        Ok(Err(e)) => machinery(&e),
        Err(p) => machinery(&format!("harness panic: {p}")),
    };
    if THREAD_PASS.contains(&id.as_str()) && variant().is_empty() {
        // engine E-thread: every interleaving of two or three OS threads using what the library
        // lets them share (core/thr.rs, /verif/harness-thr)
        if let Err(e) = crate::core::thr::explore_into(&ctx, &id, &mut run) {
            machinery(&e);
        }
    }
    // (C12's enumeration is the most expensive of the codecs: its log pass runs in the thorough tier, default build, only)
    // the passes belong to the default build; the build variants run the base enumeration
    if variant().is_empty() && (LOG_PASS.contains(&id.as_str()) || (id == "C12" && ctx.tier == Tier::Thorough)) {
        // the log pass: the same exploration with a logger installed at Trace.  Findings already
        // seen without the logger are the same defects; new ones carry the prefix log=trace/.
        set_trace(true);
        let second = crate::core::par::catch(|| (prop.run)(&pass_ctx));
        set_trace(false);
        match second {
            Ok(Ok(r2)) => {
                let mut fresh = 0u64;
                for (k, (mut f, n)) in r2.findings {
                    if run.findings.contains_key(&k) {
                        continue;
                    }
                    let key = format!("log=trace/{k}");
                    f.key = key.clone();
                    f.detail = format!("with a log backend accepting level Trace: {}", f.detail);
                    f.case = serde_json::json!({"log": "trace", "case": f.case});
                    run.findings.insert(key, (f, n));
                    fresh += 1;
                }
                run.coverage.insert("log_trace_pass".into(), serde_json::json!({"evaluations": r2.coverage.get("evaluations"), "findings_not_seen_without_logger": fresh}));
                run.assumptions.push("the whole exploration runs twice: without a log backend and with one that accepts level Trace (so that the argument expressions of the library's log statements are evaluated)".into());
            }
            Ok(Err(e)) => machinery(&format!("log pass: {e}")),
            Err(p) => machinery(&format!("harness panic in the log pass: {p}")),
        }
    }
    if SLOW_PASS.contains(&id.as_str()) && variant().is_empty() {
        // the slow-user pass: the same exploration with a user who takes an hour (of the virtual
        // clock, core/clock.rs) to answer every prompt, the user step suspending at least once.
        // How long the user takes is no input of any ceremony: findings not seen before are new.
        if let Err(e) = crate::core::clock::self_test() {
            machinery(&e);
        }
        crate::drivers::set_slow_user(3601);
        let again = crate::core::par::catch(|| (prop.run)(&pass_ctx));
        crate::drivers::set_slow_user(0);
        match again {
            Ok(Ok(r2)) => {
                let mut fresh = 0u64;
                for (k, (mut f, n)) in r2.findings {
                    if run.findings.contains_key(&k) {
                        continue;
                    }
                    let key = format!("slow-user/{k}");
                    f.key = key.clone();
                    f.detail = format!("with a user who takes 3601 s to answer each prompt: {}", f.detail);
                    f.case = serde_json::json!({"slow_user": 3601, "case": f.case});
                    run.findings.insert(key, (f, n));
                    fresh += 1;
                }
                run.coverage.insert("slow_user_pass".into(), serde_json::json!({"seconds_per_prompt": 3601, "evaluations": r2.coverage.get("evaluations"), "findings_not_seen_with_a_prompt_user": fresh}));
            }
            Ok(Err(e)) => machinery(&format!("slow-user pass: {e}")),
            Err(p) => machinery(&format!("harness panic in the slow-user pass: {p}")),
        }
    }
    if MEMBERS_PASS.contains(&id.as_str()) && variant().is_empty() {
        // the members pass: timeout and hints are request members no property speaks of; a ceremony
        // with them set (timeout 0 / 2^32-1 / 1 ms, three hint lists) is judged by the same oracle.
        let ks: &[u8] = if ctx.tier == Tier::Thorough { &[1, 2, 3] } else { &[1] };
        let mut passes = vec![];
        for &k in ks {
            crate::drivers::set_ambient_members(k);
            let again = crate::core::par::catch(|| (prop.run)(&pass_ctx));
            crate::drivers::set_ambient_members(0);
            match again {
                Ok(Ok(r2)) => {
                    let mut fresh = 0u64;
                    for (key0, (mut f, n)) in r2.findings {
                        if run.findings.contains_key(&key0) {
                            continue;
                        }
                        let key = format!("members={k}/{key0}");
                        f.key = key.clone();
                        f.detail = format!("with the request members timeout = {:?} and hints = {:?}: {}", crate::drivers::ambient_timeout_of(k), crate::drivers::ambient_hints_of(k), f.detail);
                        f.case = serde_json::json!({"members": k, "case": f.case});
                        run.findings.insert(key, (f, n));
                        fresh += 1;
                    }
                    passes.push(serde_json::json!({"members": k, "evaluations": r2.coverage.get("evaluations"), "findings_not_seen_without_them": fresh}));
                }
                Ok(Err(e)) => machinery(&format!("members pass {k}: {e}")),
                Err(p) => machinery(&format!("harness panic in the members pass {k}: {p}")),
            }
        }
        run.coverage.insert("members_pass".into(), serde_json::json!(passes));
    }
    if variant().is_empty() {
        // the env pass: the process environment is an input too.  For every environment-variable
        // name the library sources can read (core/dict.rs::env_names; none on the pinned tree)
        // the same exploration runs again with that variable set, for each value below.
        let names = crate::core::dict::env_names();
        let mut passes = vec![];
        for name in &names {
            for value in ["1", "0", "42"] {
                if std::env::var_os(name).is_some() {
                    continue;
                }
                std::env::set_var(name, value);
                let again = crate::core::par::catch(|| (prop.run)(&pass_ctx));
                std::env::remove_var(name);
                match again {
                    Ok(Ok(r2)) => {
                        let mut fresh = 0u64;
                        for (k, (mut f, n)) in r2.findings {
                            if run.findings.contains_key(&k) {
                                continue;
                            }
                            let key = format!("env={name}={value}/{k}");
                            f.key = key.clone();
                            f.detail = format!("with the environment variable {name}={value} set in the process: {}", f.detail);
                            f.case = serde_json::json!({"env": [name, value], "case": f.case});
                            run.findings.insert(key, (f, n));
                            fresh += 1;
                        }
                        passes.push(serde_json::json!({"variable": name, "value": value, "evaluations": r2.coverage.get("evaluations"), "findings_not_seen_without_it": fresh}));
                    }
                    Ok(Err(e)) => machinery(&format!("env pass {name}={value}: {e}")),
                    Err(p) => machinery(&format!("harness panic in the env pass {name}={value}: {p}")),
                }
            }
        }
        run.coverage.insert("env_pass".into(), serde_json::json!({"variables_the_sources_can_read": names, "passes": passes}));
    }
    if !variant().is_empty() {
        // a feature-variant build: its findings are keyed apart from those of the default build
        let fs = std::mem::take(&mut run.findings);
        for (k, (mut f, n)) in fs {
            let key = format!("feature={}/{k}", variant());
            f.key = key.clone();
            f.detail = format!("library built as variant {}: {}", variant(), f.detail);
            run.findings.insert(key, (f, n));
        }
    }
    let mut violations = 0usize;
    let mut known_seen = vec![];
    let mut lines = vec![];
    let mut unconfirmed: Vec<String> = vec![];
    for (key, (f, n)) in &run.findings {
        if let Some(desc) = known.lookup(&id, key) {
            known_seen.push(key.clone());
            lines.push(format!("KNOWN-FINDING: property={id} key={key} {desc} [{n} witnesses]"));
            // keep a witness on disk for known findings too (same file name every run)
            let _ = write_replay(&root, &id, f);
            continue;
        }
        // confirm by re-executing exactly this case before reporting.  Code under test that is
        // itself nondeterministic (e.g. depends on HashMap iteration order) may need more than one
        // attempt; a finding that never reproduces is a machinery error, never a verdict.
        let mut confirmed = false;
        let mut last = String::new();
        for _attempt in 0..5 {
            match crate::core::par::catch(|| replay_case(&prop, &ctx, &f.case)) {
                Ok(Ok(fs)) if fs.iter().any(|g| g.key == *key) => {
                    confirmed = true;
                    break;
                }
                Ok(Ok(fs)) => last = format!("got {:?}", fs.iter().map(|g| g.key.clone()).collect::<Vec<_>>()),
                Ok(Err(e)) => machinery(&format!("replay of key={key} failed: {e}")),
                Err(p) => machinery(&format!("replay of key={key} panicked in the harness: {p}")),
            }
        }
        // A finding seen several times during the sweep that five re-executions of its case do not
        // show may depend on values the library draws at random (a key whose coordinate starts with
        // a zero byte: 1 registration in 128).  Such a case is re-executed until it shows again, within
        // a budget; a violation observed on re-execution is real, and the replay file says how often
        // to repeat.  Without a reproduction it stays unconfirmed.
        let mut repeat_hint: Option<u64> = None;
        if !confirmed && *n >= 3 {
            let t0 = Instant::now();
            let mut k = 5u64;
            while k < 4000 && t0.elapsed().as_secs() < 20 {
                k += 1;
                if let Ok(Ok(fs)) = crate::core::par::catch(|| replay_case(&prop, &ctx, &f.case)) {
                    if fs.iter().any(|g| g.key == *key) {
                        confirmed = true;
                        repeat_hint = Some(k * 8);
                        break;
                    }
                }
            }
        }
        let owned;
        let f = if let Some(r) = repeat_hint {
            let mut g = f.clone();
            g.detail = format!("{} [outcome depends on values the library draws at random: seen {n} times in the sweep, reproduced by re-executing the case {} times]", g.detail, r / 8);
            g.case = serde_json::json!({"repeat": r, "case": g.case});
            owned = g;
            &owned
        } else {
            f
        };
        if !confirmed {
            // seen during the sweep, not reproducible from its own case: not a verdict.  If nothing
            // else is confirmed this ends as a machinery error (below); if other findings of this
            // run are confirmed, they are reported and this one is listed as unconfirmed.
            unconfirmed.push(format!("UNCONFIRMED: property={id} key={key} seen {n} times during the sweep but not when its case was re-executed 5 times ({last}) - depends on what ran before it; not counted. detail: {}", f.detail.chars().take(300).collect::<String>()));
            continue;
        }
        let path = write_replay(&root, &id, f).unwrap_or_else(|e| machinery(&e));
        violations += 1;
        lines.push(format!("VIOLATION property={id} replay={}", path.display()));
        lines.push(format!("  violation-detail: key={key} witnesses={n} :: {}", f.detail));
    }
    if violations == 0 && !unconfirmed.is_empty() {
        machinery(&format!("nondeterminism: {} finding(s) did not reproduce when their cases were re-executed and nothing else was found; first: {}", unconfirmed.len(), unconfirmed[0]));
    }
    lines.extend(unconfirmed);
    if let Err(e) = write_evidence(&ctx, &run, violations, &known_seen) {
        machinery(&e);
    }
    for l in &lines {
        println!("{l}");
    }
    let cov = &run.coverage;
    println!(
        "{id}{} tier={} level={} evaluations={} states={} transitions={} distinct_nontrivial={} outcomes={} violations={violations} known={} wall={:.1}s",
        if variant().is_empty() { String::new() } else { format!(" variant={}", variant()) },
        tier.name(),
        run.level,
        cov.get("evaluations").map(|v| v.to_string()).unwrap_or_default(),
        cov.get("states").map(|v| v.to_string()).unwrap_or_default(),
        cov.get("transitions").map(|v| v.to_string()).unwrap_or_default(),
        cov.get("distinct_nontrivial").map(|v| v.to_string()).unwrap_or_default(),
        cov.get("distinct_outcomes").map(|v| v.to_string()).unwrap_or_default(),
        known_seen.len(),
        crate::core::clock::real_elapsed(&ctx.start).as_secs_f64()
    );
    std::process::exit(if violations > 0 { 1 } else { 0 });
}


/// Replay a case; cases of the log pass are replayed with the logger at Trace, and keys get the
/// prefixes the run gave them.
fn replay_case(prop: &props::Prop, ctx: &Ctx, case: &serde_json::Value) -> Result<Vec<Finding>, String> {
    if let Some(secs) = case.get("slow_user").and_then(|e| e.as_u64()) {
        crate::drivers::set_slow_user(secs);
        let r = replay_case(prop, ctx, &case["case"]);
        crate::drivers::set_slow_user(0);
        return r.map(|fs| {
            fs.into_iter()
                .map(|mut f| {
                    f.key = format!("slow-user/{}", f.key);
                    f.case = serde_json::json!({"slow_user": secs, "case": f.case});
                    f
                })
                .collect()
        });
    }
    if let Some(n) = case.get("repeat").and_then(|e| e.as_u64()) {
        // a case whose outcome depends on values the library draws at random: re-executed until it shows
        let mut last = Ok(vec![]);
        for _ in 0..n.max(1) {
            last = replay_case(prop, ctx, &case["case"]);
            if matches!(&last, Ok(fs) if !fs.is_empty()) || last.is_err() {
                break;
            }
        }
        return last.map(|fs| {
            fs.into_iter()
                .map(|mut f| {
                    f.case = serde_json::json!({"repeat": n, "case": f.case});
                    f
                })
                .collect()
        });
    }
    if let Some(k) = case.get("members").and_then(|e| e.as_u64()) {
        crate::drivers::set_ambient_members(k as u8);
        let r = replay_case(prop, ctx, &case["case"]);
        crate::drivers::set_ambient_members(0);
        return r.map(|fs| {
            fs.into_iter()
                .map(|mut f| {
                    f.key = format!("members={k}/{}", f.key);
                    f.case = serde_json::json!({"members": k, "case": f.case});
                    f
                })
                .collect()
        });
    }
    if let Some(ev) = case.get("env").and_then(|e| e.as_array()) {
        // a case of the env pass: the same replay with the variable set, keys prefixed as the run did
        let (name, value) = (ev[0].as_str().unwrap_or("").to_string(), ev[1].as_str().unwrap_or("").to_string());
        std::env::set_var(&name, &value);
        let r = replay_case(prop, ctx, &case["case"]);
        std::env::remove_var(&name);
        return r.map(|fs| {
            fs.into_iter()
                .map(|mut f| {
                    f.key = format!("env={name}={value}/{}", f.key);
                    f.case = serde_json::json!({"env": [name, value], "case": f.case});
                    f
                })
                .collect()
        });
    }
    let (inner, trace) = if case.get("log").and_then(|l| l.as_str()) == Some("trace") { (&case["case"], true) } else { (case, false) };
    if trace {
        set_trace(true);
    }
    let r = match crate::core::thr::replay(&ctx.id, inner) {
        Some(r) => r,
        None => (prop.replay)(ctx, inner),
    };
    if trace {
        set_trace(false);
    }
    r.map(|fs| {
        fs.into_iter()
            .map(|mut f| {
                if trace {
                    f.key = format!("log=trace/{}", f.key);
                }
                if !variant().is_empty() {
                    f.key = format!("feature={}/{}", variant(), f.key);
                }
                f
            })
            .collect()
    })
}
