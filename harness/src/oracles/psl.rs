//! Textbook publicsuffix.org matcher over the rules of public_suffix_list.dat.
//! <https://github.com/publicsuffix/list/wiki/Format#algorithm>
use super::punycode;
use std::collections::HashSet;

pub struct Psl {
    pub normal: HashSet<String>,
    /// base of `*.base` rules
    pub wildcard: HashSet<String>,
    /// `!name` rules, without the `!`
    pub exception: HashSet<String>,
    /// every rule as written (A-label form, with `*.`/`!` markers), in file order
    pub rules: Vec<String>,
    /// the IDN rules in their U-label spelling (as in the file)
    pub unicode_rules: Vec<String>,
}

impl Psl {
    pub fn parse(text: &str) -> Result<Psl, String> {
        let mut p = Psl { normal: HashSet::new(), wildcard: HashSet::new(), exception: HashSet::new(), rules: vec![], unicode_rules: vec![] };
        for line in text.lines() {
            let line = line.trim();
            if line.is_empty() || line.starts_with("//") {
                continue;
            }
            let rule = line.split_whitespace().next().unwrap();
            if !rule.is_ascii() {
                p.unicode_rules.push(rule.to_string());
            }
            let (marker, body) = if let Some(r) = rule.strip_prefix('!') {
                ("!", r)
            } else if let Some(r) = rule.strip_prefix("*.") {
                ("*.", r)
            } else {
                ("", rule)
            };
            let ascii = punycode::to_ascii(body).ok_or_else(|| format!("cannot punycode rule {rule}"))?;
            match marker {
                "!" => p.exception.insert(ascii.clone()),
                "*." => p.wildcard.insert(ascii.clone()),
                _ => p.normal.insert(ascii.clone()),
            };
            p.rules.push(format!("{marker}{ascii}"));
        }
        if p.rules.len() < 1000 {
            return Err(format!("public_suffix_list.dat has only {} rules", p.rules.len()));
        }
        Ok(p)
    }
    pub fn load(path: &str) -> Result<Psl, String> {
        let text = std::fs::read_to_string(path).map_err(|e| format!("read {path}: {e}"))?;
        Self::parse(&text)
    }

    /// Number of labels of the public suffix of `domain` (A-label, lower case, no empty labels).
    pub fn suffix_labels(&self, labels: &[&str]) -> usize {
        let n = labels.len();
        let mut best = 1usize; // implicit "*"
        for i in 0..n {
            let cand = labels[i..].join(".");
            if self.exception.contains(&cand) {
                // exception rules prevail; the suffix is the rule minus its leftmost label
                return n - i - 1;
            }
            let len = n - i;
            if self.normal.contains(&cand) && len > best {
                best = len;
            }
            if i + 1 < n && self.wildcard.contains(&labels[i + 1..].join(".")) && len > best {
                best = len;
            }
        }
        best
    }
    pub fn well_formed(domain: &str) -> bool {
        !domain.is_empty() && domain.split('.').all(|l| !l.is_empty())
    }
    pub fn public_suffix<'a>(&self, domain: &'a str) -> Option<&'a str> {
        if !Self::well_formed(domain) {
            return None;
        }
        let labels: Vec<&str> = domain.split('.').collect();
        let k = self.suffix_labels(&labels);
        Some(tail(domain, k))
    }
    /// eTLD+1, None when the name is a public suffix itself (or malformed)
    pub fn etld_plus_one<'a>(&self, domain: &'a str) -> Option<&'a str> {
        if !Self::well_formed(domain) {
            return None;
        }
        let labels: Vec<&str> = domain.split('.').collect();
        let k = self.suffix_labels(&labels);
        if labels.len() <= k {
            return None;
        }
        Some(tail(domain, k + 1))
    }
    /// "registrable": not a public suffix, i.e. has an eTLD+1.  `name` in any case; U-labels are
    /// converted to A-labels first.
    pub fn registrable(&self, name: &str) -> bool {
        let lower = name.to_lowercase();
        match punycode::to_ascii(&lower) {
            Some(a) => self.etld_plus_one(&a).is_some(),
            None => false,
        }
    }
}

/// the last k labels of a dotted name
pub fn tail(domain: &str, k: usize) -> &str {
    let mut idx = domain.len();
    let mut seen = 0;
    for (i, b) in domain.bytes().enumerate().rev() {
        if b == b'.' {
            seen += 1;
            if seen == k {
                idx = i + 1;
                return &domain[idx..];
            }
        }
    }
    let _ = idx;
    domain
}
