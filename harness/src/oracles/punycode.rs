//! RFC 3492 punycode encoder (encode only) and the A-label form of a dotted name.
const BASE: u32 = 36;
const TMIN: u32 = 1;
const TMAX: u32 = 26;
const SKEW: u32 = 38;
const DAMP: u32 = 700;
const INITIAL_BIAS: u32 = 72;
const INITIAL_N: u32 = 128;

fn digit(d: u32) -> char {
    if d < 26 {
        (b'a' + d as u8) as char
    } else {
        (b'0' + (d - 26) as u8) as char
    }
}
fn adapt(mut delta: u32, numpoints: u32, first: bool) -> u32 {
    delta = if first { delta / DAMP } else { delta / 2 };
    delta += delta / numpoints;
    let mut k = 0;
    while delta > ((BASE - TMIN) * TMAX) / 2 {
        delta /= BASE - TMIN;
        k += BASE;
    }
    k + (((BASE - TMIN + 1) * delta) / (delta + SKEW))
}
pub fn encode(input: &str) -> Option<String> {
    let cps: Vec<u32> = input.chars().map(|c| c as u32).collect();
    let mut out: String = cps.iter().filter(|&&c| c < 128).map(|&c| c as u8 as char).collect();
    let b = out.len() as u32;
    let mut h = b;
    if b > 0 {
        out.push('-');
    }
    let mut n = INITIAL_N;
    let mut delta = 0u32;
    let mut bias = INITIAL_BIAS;
    while (h as usize) < cps.len() {
        let m = cps.iter().copied().filter(|&c| c >= n).min()?;
        delta = delta.checked_add((m - n).checked_mul(h + 1)?)?;
        n = m;
        for &c in &cps {
            if c < n {
                delta = delta.checked_add(1)?;
            }
            if c == n {
                let mut q = delta;
                let mut k = BASE;
                loop {
                    let t = if k <= bias { TMIN } else if k >= bias + TMAX { TMAX } else { k - bias };
                    if q < t {
                        break;
                    }
                    out.push(digit(t + (q - t) % (BASE - t)));
                    q = (q - t) / (BASE - t);
                    k += BASE;
                }
                out.push(digit(q));
                bias = adapt(delta, h + 1, h == b);
                delta = 0;
                h += 1;
            }
        }
        delta += 1;
        n += 1;
    }
    Some(out)
}
/// A-label form of a (already lower-case, NFC) dotted name: non-ASCII labels become xn--…
pub fn to_ascii(name: &str) -> Option<String> {
    let mut labels = vec![];
    for l in name.split('.') {
        if l.is_ascii() {
            labels.push(l.to_string());
        } else {
            labels.push(format!("xn--{}", encode(l)?));
        }
    }
    Some(labels.join("."))
}
