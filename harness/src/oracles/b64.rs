//! RFC 4648 base64 / base64url, written out by hand.
const STD: &[u8; 64] = b"ABCDEFGHIJKLMNOPQRSTUVWXYZabcdefghijklmnopqrstuvwxyz0123456789+/";
const URL: &[u8; 64] = b"ABCDEFGHIJKLMNOPQRSTUVWXYZabcdefghijklmnopqrstuvwxyz0123456789-_";

fn enc(data: &[u8], tab: &[u8; 64], pad: bool) -> String {
    let mut out = String::with_capacity(data.len().div_ceil(3) * 4);
    for c in data.chunks(3) {
        let b = [c[0], *c.get(1).unwrap_or(&0), *c.get(2).unwrap_or(&0)];
        let n = (u32::from(b[0]) << 16) | (u32::from(b[1]) << 8) | u32::from(b[2]);
        out.push(tab[(n >> 18) as usize & 63] as char);
        out.push(tab[(n >> 12) as usize & 63] as char);
        if c.len() > 1 {
            out.push(tab[(n >> 6) as usize & 63] as char);
        } else if pad {
            out.push('=');
        }
        if c.len() > 2 {
            out.push(tab[n as usize & 63] as char);
        } else if pad {
            out.push('=');
        }
    }
    out
}
pub fn url_nopad(d: &[u8]) -> String {
    enc(d, URL, false)
}
pub fn url_pad(d: &[u8]) -> String {
    enc(d, URL, true)
}
pub fn std_nopad(d: &[u8]) -> String {
    enc(d, STD, false)
}
pub fn std_pad(d: &[u8]) -> String {
    enc(d, STD, true)
}

fn dec(s: &str, tab: &[u8; 64]) -> Option<Vec<u8>> {
    let s = s.trim_end_matches('=');
    let mut out = Vec::with_capacity(s.len() * 3 / 4);
    let mut acc = 0u32;
    let mut bits = 0u32;
    for ch in s.bytes() {
        let v = tab.iter().position(|&t| t == ch)? as u32;
        acc = (acc << 6) | v;
        bits += 6;
        if bits >= 8 {
            bits -= 8;
            out.push((acc >> bits) as u8);
            acc &= (1 << bits) - 1;
        }
    }
    if s.len() % 4 == 1 {
        return None;
    }
    Some(out)
}
/// lenient about trailing bits and padding
pub fn url_decode(s: &str) -> Option<Vec<u8>> {
    dec(s, URL)
}
pub fn std_decode(s: &str) -> Option<Vec<u8>> {
    dec(s, STD)
}

pub fn hex_lower(d: &[u8]) -> String {
    d.iter().map(|b| format!("{b:02x}")).collect()
}
