//! Independent oracles: written from the specifications, sharing no code with the crates under test.
pub mod b64;
pub mod psl;
pub mod rp;
pub mod tinytable;
pub mod punycode;
