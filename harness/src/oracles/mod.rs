// independent oracles
