//! A second public-suffix table in the generated format (hand-encoded), so that the generic
//! `ListProvider<T>` is exercised with more than one `T` in one process / on one thread:
//! rules  com, corp, intra.corp, *.lab, !gate.lab, test
use super::psl::Psl;
use public_suffix::{ListProvider, Table};

pub const RULES: &str = "com\ncorp\nintra.corp\n*.lab\n!gate.lab\ntest\n";

pub struct Tiny;
const fn node(children: u32, offset: u32, len: u32) -> u32 {
    (children << 22) | (1 << 21) | (offset << 6) | len
}
const fn kids(wildcard: u32, node_type: u32, hi: u32, lo: u32) -> u32 {
    (wildcard << 30) | (node_type << 28) | (hi << 14) | lo
}
impl Table for Tiny {
    const NODES_BITS_CHILDREN: u32 = 10;
    const NODES_BITS_ICANN: u32 = 1;
    const NODES_BITS_TEXT_OFFSET: u32 = 15;
    const NODES_BITS_TEXT_LENGTH: u32 = 6;
    const CHILDREN_BITS_WILDCARD: u32 = 1;
    const CHILDREN_BITS_NODE_TYPE: u32 = 2;
    const CHILDREN_BITS_HI: u32 = 14;
    const CHILDREN_BITS_LO: u32 = 14;
    const NODE_TYPE_NORMAL: u32 = 0;
    const NODE_TYPE_EXCEPTION: u32 = 1;
    const NUM_TLD: u32 = 4;
    //                          0  3   7  10   14    19
    const TEXT: &'static str = "comcorplabtestintragate";
    const NODES: &'static [u32] = &[
        node(0, 0, 3),  // 0 com
        node(1, 3, 4),  // 1 corp   -> children [4,5)
        node(2, 7, 3),  // 2 lab    -> parent only, wildcard, children [5,6)
        node(0, 10, 4), // 3 test
        node(0, 14, 5), // 4 intra (under corp)
        node(3, 19, 4), // 5 gate  (under lab, exception)
    ];
    const CHILDREN: &'static [u32] = &[
        kids(0, 0, 0, 0), // 0: normal, no children
        kids(0, 0, 5, 4), // 1: corp
        kids(1, 2, 6, 5), // 2: lab (parent only, wildcard)
        kids(0, 1, 0, 0), // 3: exception, no children
    ];
}
pub const TINY: ListProvider<Tiny> = ListProvider::new();

/// reference matcher over the same rules
pub fn reference() -> Psl {
    let mut p = Psl { normal: Default::default(), wildcard: Default::default(), exception: Default::default(), rules: vec![], unicode_rules: vec![] };
    for rule in RULES.lines() {
        if let Some(r) = rule.strip_prefix('!') {
            p.exception.insert(r.to_string());
        } else if let Some(r) = rule.strip_prefix("*.") {
            p.wildcard.insert(r.to_string());
        } else {
            p.normal.insert(rule.to_string());
        }
        p.rules.push(rule.to_string());
    }
    p
}

/// names that reach every rule of the tiny table and names that only the shipped list knows
pub fn names() -> Vec<String> {
    let mut v = vec![];
    for base in ["com", "corp", "intra.corp", "lab", "x.lab", "gate.lab", "test", "uk", "co.uk", "ck", "www.ck", "jp", "kobe.jp", "city.kobe.jp", "unknowntld", "aero", "airline.aero"] {
        v.push(base.to_string());
        v.push(format!("a.{base}"));
        v.push(format!("b.a.{base}"));
    }
    v.extend(["", ".", "com.", ".com", "a..com"].map(String::from));
    v
}
