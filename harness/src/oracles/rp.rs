//! A relying party's view: independent verification of registration and assertion responses.
//! Uses serde_json::Value / ciborium::Value as generic parsers, sha2 and p256 directly.
use super::b64;
use ciborium::value::Value as Cbor;
use p256::ecdsa::signature::Verifier;
use p256::ecdsa::{Signature, VerifyingKey};
use sha2::{Digest, Sha256};

pub const SPKI_P256_PREFIX: [u8; 26] = [0x30, 0x59, 0x30, 0x13, 0x06, 0x07, 0x2a, 0x86, 0x48, 0xce, 0x3d, 0x02, 0x01, 0x06, 0x08, 0x2a, 0x86, 0x48, 0xce, 0x3d, 0x03, 0x01, 0x07, 0x03, 0x42, 0x00];

pub fn sha256(d: &[u8]) -> Vec<u8> {
    Sha256::digest(d).to_vec()
}

#[derive(Debug, Clone)]
pub struct Attested {
    pub aaguid: [u8; 16],
    pub cred_id: Vec<u8>,
    pub cose: Cbor,
    pub cose_bytes: Vec<u8>,
}
#[derive(Debug, Clone)]
pub struct AuthData {
    pub rp_id_hash: [u8; 32],
    pub flags: u8,
    pub counter: u32,
    pub attested: Option<Attested>,
    pub extensions: Option<Cbor>,
    /// bytes left over after the flagged sections
    pub trailing: usize,
}
pub const UP: u8 = 0x01;
pub const UV: u8 = 0x04;
pub const BE: u8 = 0x08;
pub const BS: u8 = 0x10;
pub const AT: u8 = 0x40;
pub const ED: u8 = 0x80;

/// Decode one CBOR item from the front of `b`, returning it and the number of bytes consumed.
pub fn cbor_item(b: &[u8]) -> Result<(Cbor, usize), String> {
    let mut cur = std::io::Cursor::new(b);
    let v: Cbor = ciborium::de::from_reader(&mut cur).map_err(|e| format!("cbor: {e}"))?;
    Ok((v, cur.position() as usize))
}

/// Byte-level parser of the WebAuthn authenticator data layout (§6.1).
pub fn parse_auth_data(b: &[u8]) -> Result<AuthData, String> {
    if b.len() < 37 {
        return Err(format!("authenticator data is {} bytes (< 37)", b.len()));
    }
    let mut rp_id_hash = [0u8; 32];
    rp_id_hash.copy_from_slice(&b[..32]);
    let flags = b[32];
    let counter = u32::from_be_bytes([b[33], b[34], b[35], b[36]]);
    let mut off = 37;
    let mut attested = None;
    if flags & AT != 0 {
        if b.len() < off + 18 {
            return Err("attested credential data truncated".into());
        }
        let mut aaguid = [0u8; 16];
        aaguid.copy_from_slice(&b[off..off + 16]);
        let l = u16::from_be_bytes([b[off + 16], b[off + 17]]) as usize;
        off += 18;
        if b.len() < off + l {
            return Err("credential id truncated".into());
        }
        let cred_id = b[off..off + l].to_vec();
        off += l;
        let (cose, n) = cbor_item(&b[off..])?;
        let cose_bytes = b[off..off + n].to_vec();
        off += n;
        attested = Some(Attested { aaguid, cred_id, cose, cose_bytes });
    }
    let mut extensions = None;
    if flags & ED != 0 {
        let (v, n) = cbor_item(&b[off..])?;
        if !matches!(v, Cbor::Map(_)) {
            return Err("extension data is not a CBOR map".into());
        }
        off += n;
        extensions = Some(v);
    }
    Ok(AuthData { rp_id_hash, flags, counter, attested, extensions, trailing: b.len() - off })
}

pub fn cbor_int(v: &Cbor) -> Option<i128> {
    match v {
        Cbor::Integer(i) => Some((*i).into()),
        _ => None,
    }
}

/// COSE_Key for ES256: exactly {1: 2, 3: -7, -1: 1, -2: x(32), -3: y(32)}.  Returns (x, y).
pub fn es256_cose_xy(cose: &Cbor) -> Result<(Vec<u8>, Vec<u8>), String> {
    let Cbor::Map(m) = cose else { return Err("COSE key is not a map".into()) };
    let mut labels: Vec<i128> = vec![];
    let mut x = None;
    let mut y = None;
    for (k, v) in m {
        let k = cbor_int(k).ok_or("COSE key label is not an integer")?;
        if labels.contains(&k) {
            return Err(format!("COSE key label {k} duplicated"));
        }
        labels.push(k);
        match k {
            1 => {
                if cbor_int(v) != Some(2) {
                    return Err(format!("kty is {v:?}, expected 2 (EC2)"));
                }
            }
            3 => {
                if cbor_int(v) != Some(-7) {
                    return Err(format!("alg is {v:?}, expected -7 (ES256)"));
                }
            }
            -1 => {
                if cbor_int(v) != Some(1) {
                    return Err(format!("crv is {v:?}, expected 1 (P-256)"));
                }
            }
            -2 => x = v.as_bytes().cloned(),
            -3 => y = v.as_bytes().cloned(),
            -4 => return Err("COSE key in attested credential data carries the private parameter d (label -4)".into()),
            other => return Err(format!("unexpected COSE key label {other}")),
        }
    }
    labels.sort();
    if labels != vec![-3, -2, -1, 1, 3] {
        return Err(format!("COSE key labels are {labels:?}, expected exactly {{1,3,-1,-2,-3}}"));
    }
    let (x, y) = (x.ok_or("x is not a byte string")?, y.ok_or("y is not a byte string")?);
    if x.len() != 32 || y.len() != 32 {
        return Err(format!("coordinate lengths {} / {}", x.len(), y.len()));
    }
    Ok((x, y))
}

pub fn sec1(x: &[u8], y: &[u8]) -> Vec<u8> {
    let mut v = vec![0x04];
    v.extend_from_slice(x);
    v.extend_from_slice(y);
    v
}
pub fn verifying_key(x: &[u8], y: &[u8]) -> Result<VerifyingKey, String> {
    VerifyingKey::from_sec1_bytes(&sec1(x, y)).map_err(|_| "public key is not a point on P-256".to_string())
}
/// Accepts DER or raw r||s.
pub fn ecdsa_verify(key: &VerifyingKey, msg: &[u8], sig: &[u8]) -> Result<&'static str, String> {
    if let Ok(s) = Signature::from_der(sig) {
        if key.verify(msg, &s).is_ok() {
            return Ok("der");
        }
    }
    if let Ok(s) = Signature::from_slice(sig) {
        if key.verify(msg, &s).is_ok() {
            return Ok("raw");
        }
    }
    Err("ECDSA P-256 signature does not verify".into())
}
/// public point of private scalar d
pub fn public_of(d: &[u8]) -> Result<(Vec<u8>, Vec<u8>), String> {
    let sk = p256::SecretKey::from_slice(d).map_err(|_| "stored private scalar is invalid".to_string())?;
    let pt = sk.public_key().to_sec1_bytes();
    Ok((pt[1..33].to_vec(), pt[33..65].to_vec()))
}

#[derive(Debug, Clone)]
pub struct ClientDataExpect<'a> {
    pub ty: &'a str,
    pub challenge: &'a [u8],
    pub origin: &'a str,
    /// members that must follow (name, value) – extra client data
    pub extra: Vec<(String, serde_json::Value)>,
}

pub fn check_client_data(json: &[u8], e: &ClientDataExpect) -> Vec<(&'static str, String)> {
    let mut v = vec![];
    let text = match std::str::from_utf8(json) {
        Ok(t) => t,
        Err(_) => return vec![("client-data-not-utf8", "clientDataJSON is not UTF-8".into())],
    };
    let val: serde_json::Value = match serde_json::from_str(text) {
        Ok(x) => x,
        Err(e) => return vec![("client-data-not-json", format!("clientDataJSON does not parse: {e}"))],
    };
    let Some(obj) = val.as_object() else { return vec![("client-data-not-object", "clientDataJSON is not an object".into())] };
    if obj.get("type").and_then(|t| t.as_str()) != Some(e.ty) {
        v.push(("client-data-type", format!("type is {:?}, expected {:?}", obj.get("type"), e.ty)));
    }
    let want = b64::url_nopad(e.challenge);
    if obj.get("challenge").and_then(|t| t.as_str()) != Some(want.as_str()) {
        v.push(("client-data-challenge", format!("challenge is {:?}, expected unpadded base64url {:?}", obj.get("challenge"), want)));
    }
    if obj.get("origin").and_then(|t| t.as_str()) != Some(e.origin) {
        v.push(("client-data-origin", format!("origin is {:?}, expected {:?}", obj.get("origin"), e.origin)));
    }
    for (k, want) in &e.extra {
        if obj.get(k) != Some(want) {
            v.push(("client-data-extra", format!("extra member {k} is {:?}, expected {want}", obj.get(k))));
        }
    }
    v
}

pub struct RegResponse<'a> {
    pub id: &'a str,
    pub raw_id: &'a [u8],
    pub ty_is_public_key: bool,
    pub client_data_json: &'a [u8],
    pub authenticator_data: &'a [u8],
    pub attestation_object: &'a [u8],
    pub public_key_der: Option<&'a [u8]>,
    pub public_key_algorithm: i64,
}

/// Returns problems and, when parseable, the attested public key (x, y) and parsed auth data.
pub fn verify_registration(r: &RegResponse, cd: &ClientDataExpect, rp_id: &str) -> (Vec<(&'static str, String)>, Option<(Vec<u8>, Vec<u8>)>, Option<AuthData>) {
    let mut v = check_client_data(r.client_data_json, cd);
    if !r.ty_is_public_key {
        v.push(("credential-type", "type is not public-key".into()));
    }
    if r.id != b64::url_nopad(r.raw_id) {
        v.push(("id-not-base64url-of-raw-id", format!("id {:?} vs rawId {}", r.id, b64::hex_lower(r.raw_id))));
    }
    // attestation object
    match cbor_item(r.attestation_object) {
        Err(e) => v.push(("attestation-object-cbor", e)),
        Ok((Cbor::Map(m), n)) => {
            if n != r.attestation_object.len() {
                v.push(("attestation-object-trailing", format!("{} trailing bytes", r.attestation_object.len() - n)));
            }
            let get = |k: &str| m.iter().find(|(kk, _)| kk.as_text() == Some(k)).map(|(_, vv)| vv);
            if get("fmt").and_then(|f| f.as_text()) != Some("none") {
                v.push(("attestation-fmt", format!("fmt is {:?}", get("fmt"))));
            }
            match get("attStmt") {
                Some(Cbor::Map(s)) if s.is_empty() => {}
                other => v.push(("attestation-stmt", format!("attStmt is {other:?}, expected {{}}"))),
            }
            match get("authData").and_then(|a| a.as_bytes()) {
                Some(b) if b.as_slice() == r.authenticator_data => {}
                Some(_) => v.push(("auth-data-differs-inside-attestation-object", "authData inside the attestation object is not byte-identical to response.authenticatorData".into())),
                None => v.push(("attestation-auth-data", "authData missing or not a byte string".into())),
            }
            if m.len() != 3 {
                v.push(("attestation-object-members", format!("{} members", m.len())));
            }
        }
        Ok((other, _)) => v.push(("attestation-object-cbor", format!("not a map: {other:?}"))),
    }
    let ad = match parse_auth_data(r.authenticator_data) {
        Ok(a) => a,
        Err(e) => {
            v.push(("auth-data-layout", e));
            return (v, None, None);
        }
    };
    if ad.trailing != 0 {
        v.push(("auth-data-trailing", format!("{} trailing bytes", ad.trailing)));
    }
    if ad.rp_id_hash[..] != sha256(rp_id.as_bytes())[..] {
        v.push(("rp-id-hash", format!("rpIdHash is not SHA-256({rp_id:?})")));
    }
    let Some(att) = ad.attested.clone() else {
        v.push(("no-attested-credential-data", "AT flag clear in a registration response".into()));
        return (v, None, Some(ad));
    };
    if att.cred_id != r.raw_id {
        v.push(("attested-id-differs-from-raw-id", format!("attested {} vs rawId {}", b64::hex_lower(&att.cred_id), b64::hex_lower(r.raw_id))));
    }
    let xy = match es256_cose_xy(&att.cose) {
        Ok(xy) => xy,
        Err(e) => {
            v.push(("cose-key", e));
            return (v, None, Some(ad));
        }
    };
    if let Err(e) = verifying_key(&xy.0, &xy.1) {
        v.push(("public-key-not-on-curve", e));
    }
    if r.public_key_algorithm != -7 {
        v.push(("reported-algorithm", format!("publicKeyAlgorithm is {}", r.public_key_algorithm)));
    }
    match r.public_key_der {
        Some(der) => {
            let mut want = SPKI_P256_PREFIX.to_vec();
            want.extend(sec1(&xy.0, &xy.1));
            if der != want.as_slice() {
                v.push(("der-key-differs-from-cose-key", "response.publicKey is not the SubjectPublicKeyInfo of the attested COSE key".into()));
            }
        }
        None => v.push(("der-key-missing", "response.publicKey absent for ES256".into())),
    }
    (v, Some(xy), Some(ad))
}

pub struct AssertResponse<'a> {
    pub id: &'a str,
    pub raw_id: &'a [u8],
    pub ty_is_public_key: bool,
    pub client_data_json: &'a [u8],
    pub authenticator_data: &'a [u8],
    pub signature: &'a [u8],
}

/// `hash_override`: the caller-supplied client data hash, when that mode is used.
pub fn verify_assertion(r: &AssertResponse, cd: &ClientDataExpect, rp_id: &str, key_xy: &(Vec<u8>, Vec<u8>), hash_override: Option<&[u8]>) -> (Vec<(&'static str, String)>, Option<AuthData>) {
    let mut v = check_client_data(r.client_data_json, cd);
    if !r.ty_is_public_key {
        v.push(("credential-type", "type is not public-key".into()));
    }
    if r.id != b64::url_nopad(r.raw_id) {
        v.push(("id-not-base64url-of-raw-id", format!("id {:?} vs rawId {}", r.id, b64::hex_lower(r.raw_id))));
    }
    let ad = match parse_auth_data(r.authenticator_data) {
        Ok(a) => a,
        Err(e) => {
            v.push(("auth-data-layout", e));
            return (v, None);
        }
    };
    if ad.trailing != 0 {
        v.push(("auth-data-trailing", format!("{} trailing bytes", ad.trailing)));
    }
    if ad.rp_id_hash[..] != sha256(rp_id.as_bytes())[..] {
        v.push(("rp-id-hash", format!("rpIdHash is not SHA-256({rp_id:?})")));
    }
    if ad.attested.is_some() || ad.flags & AT != 0 {
        v.push(("assertion-carries-attested-data", "AT flag set in an assertion".into()));
    }
    let mut msg = r.authenticator_data.to_vec();
    match hash_override {
        Some(h) => msg.extend_from_slice(h),
        None => msg.extend(sha256(r.client_data_json)),
    }
    match verifying_key(&key_xy.0, &key_xy.1) {
        Err(e) => v.push(("registered-key-invalid", e)),
        Ok(k) => {
            if let Err(e) = ecdsa_verify(&k, &msg, r.signature) {
                v.push(("signature-does-not-verify", format!("{e} over authenticatorData || clientDataHash under the key registered for {}", b64::hex_lower(r.raw_id))));
            }
        }
    }
    (v, Some(ad))
}
