#!/usr/bin/env python3
"""Generate the prompts for a round of independent seeded changes.
usage: seed_prompts.py <round-number> <letters-of-earlier-rounds e.g. abcd> [extra hint text]
Writes /tmp/seeded_out<N>/<Cxx>/prompt.txt and creates the worktrees /tmp/wt<N>/<Cxx>.
The prompt contains only the property text and one-sentence summaries of earlier seeded changes."""
import json, os, subprocess, sys
n = sys.argv[1]; earlier = sys.argv[2]; hint = sys.argv[3] if len(sys.argv) > 3 else ""
props = [json.loads(l) for l in open('/verif/properties.jsonl')]
for p in props:
    pid = p['id']; wt = f"/tmp/wt{n}/{pid}"; out = f"/tmp/seeded_out{n}/{pid}"
    os.makedirs(out, exist_ok=True); os.makedirs(f"/tmp/wt{n}", exist_ok=True)
    if not os.path.isdir(wt):
        subprocess.run(["git", "-C", "/repo", "worktree", "add", "--detach", wt, "HEAD"], check=True, stdout=subprocess.DEVNULL, stderr=subprocess.DEVNULL)
    prev = []
    for i, l in enumerate(earlier):
        f = f"/verif/seeded/{pid}-{l}/meta.json"
        if os.path.exists(f):
            prev.append(f'({i+1}) "' + ' '.join(json.load(open(f))['summary'].split())[:330] + '"')
    note = ""
    if prev:
        note = (f"NOTE: {len(prev)} other developers already seeded regressions for this property: " + " ".join(prev) +
                f". Your change must use a DIFFERENT mechanism, code site and trigger from all of them. {hint}\n\n")
    text = f"""You are helping to evaluate a verification effort by playing the role of a developer who introduces a subtle regression.

Repository: a git worktree of the Rust project 1Password/passkey-rs (WebAuthn client, CTAP2 software authenticator, CTAP HID framing, shared types, public-suffix lookup) at {wt} . Work ONLY inside {wt} and write your results to {out}/ . Do NOT read, list or modify anything under /verif or /repo (that would spoil the experiment), and do not use the network (everything builds offline: always pass --offline to cargo).

The property ({pid}: {p['title']}) that the code is supposed to satisfy:

STATEMENT: {p['statement']}

SCOPE (what it is quantified over): {p['quantifier']['text']}

{note}Your task: make ONE realistic source change to the library code in {wt} (not to its tests) that BREAKS this property, such that
  1. the whole workspace still compiles and the existing test suite still passes unedited: run `cd {wt} && cargo test --workspace --no-fail-fast --offline` and confirm zero failures (98 unit/integration tests plus doctests);
  2. the breakage is NOT exposed by ordinary use at once: it must need something specific to manifest - a particular interleaving of concurrent operations, a fault or cancellation at a particular point, a multi-step sequence of operations, an unusual or boundary input, a particular configuration, or two cooperating code sites that each look fine alone. Prefer the kind of mistake a real refactoring/optimisation/"small cleanup" commit could introduce. Avoid changes that merely make every call fail.
  3. you demonstrate it: write a demonstration (a new Rust integration test file or unit test module added by a separate patch, or a small example program) that PASSES on the unchanged tree and FAILS with your change. Run it both ways yourself.

Deliverables, all under {out}/ :
  - patch.diff : `git diff` of the breaking change ONLY (library source files; must apply with `git apply` to the clean worktree HEAD)
  - demo.diff  : a second patch that ONLY adds the demonstration (new test file(s), and a Cargo.toml dev-dependency/feature tweak if really needed); it must apply to the clean tree and also on top of patch.diff
  - meta.json  : {{"property": "{pid}", "summary": "<what the change does>", "needs_to_manifest": "<the specific interleaving / fault / sequence / input / configuration needed>", "demo_cmd": "<exact cargo command, run from the worktree root, that runs only the demonstration>", "files_touched": [...], "suite_passes_with_change": true/false, "demo_passes_clean": true/false, "demo_fails_with_change": true/false}}

When done, restore the worktree to a clean state (`git -C {wt} checkout -- . && git -C {wt} clean -fdq -e target`) and reply with a 5-line summary. If after honest effort you cannot find a change meeting all conditions, say so in meta.json ("summary": "none found", with the reason) rather than delivering something that violates them."""
    open(f"{out}/prompt.txt", "w").write(text)
print("ok")
