#!/bin/bash
# Engine E-thread front end: thr_run.sh <C01|C02|C03|C10> <quick|thorough> [case]
# Copies /repo's working tree (or $VERIF_REPO) to a scratch directory with std's synchronisation
# primitives redirected to shuttle's (tools/thr_rewrite.py), builds /verif/harness-thr against that
# copy, runs it, prints its JSON (one line, prefixed "THR-JSON "), and removes the scratch copy.
# Exit 0: ran; exit 3: the redirected copy does not build; exit 4: the exploration did not end within
# its time limit (a primitive the scheduler does not model blocking a scheduled thread looks like
# this) - both reported, the caller decides; exit 2: other failure.
set -u
PROP="$1"; TIER="${2:-quick}"; CASE="${3:-}"
REPO="${VERIF_REPO:-/repo}"
HERE="$(cd "$(dirname "$0")/.." && pwd)"
TGT="${VERIF_THR_TARGET:-$HERE/harness/target-thr}"
mkdir -p "$TGT"
exec 9>"$TGT/.lock"; flock 9
# a fixed scratch path per target directory keeps cargo's fingerprints valid between runs
SCR="/tmp/vthr-$(echo "$TGT" | md5sum | cut -c1-8)"
rm -rf "$SCR"; mkdir -p "$SCR"
trap 'rm -rf "$SCR"' EXIT
rsync -a --exclude target "$HERE/harness-thr/" "$SCR/vthr/"
REPORT=$(python3 "$HERE/tools/thr_rewrite.py" "$REPO" "$SCR/repo" "$SCR/vthr/vsync" "$TGT/srcstate.json") || { echo "THR-ERROR rewrite failed"; exit 2; }
echo "THR-REWRITE $REPORT"
cd "$SCR/vthr"
if ! CARGO_NET_OFFLINE=true CARGO_TARGET_DIR="$TGT" cargo build --offline -q --release > "$TGT/build.log" 2>&1; then
  echo "THR-BUILD-FAILED see $TGT/build.log"
  grep -E '^error' -A 6 "$TGT/build.log" | head -40 >&2
  exit 3
fi
# a scenario that never yields (a std primitive blocking a shuttle thread) would hang: watchdog
LIMIT=600; [ "$TIER" = thorough ] && LIMIT=7000
OUT=$(SHUTTLE_SILENCE_WARNINGS=1 timeout $LIMIT "$TGT/release/vthr" "$PROP" "$TIER" $CASE 2>"$TGT/run.err"); rc=$?
if [ $rc -eq 124 ]; then
  echo "THR-TIMEOUT after ${LIMIT}s"
  exit 4
fi
if [ $rc -ne 0 ] || [ -z "$OUT" ]; then
  echo "THR-ERROR run exit=$rc $(tail -c 300 "$TGT/run.err" | tr '\n' ' ')"
  exit 2
fi
echo "THR-JSON $OUT"
exit 0
