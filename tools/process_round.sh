#!/bin/bash
# usage: process_round.sh <round-number> [Cxx ...]  – for every finished seed of the round: confirm it in
# its scratch worktree (suite passes with the change, demo passes clean / fails changed), then run
# the property's own quick check against it in /repo (apply, check, revert).
N="$1"; shift
IDS="$@"; [ -z "$IDS" ] && IDS=$(ls /tmp/seeded_out$N)
for p in $IDS; do
  d=/tmp/seeded_out$N/$p
  [ -f $d/meta.json ] && [ -f $d/patch.diff ] && [ -f $d/demo.diff ] || { echo "## $p: not finished"; continue; }
  echo "## $p"
  /verif/tools/verify_seeded.sh $d /tmp/wt$N/$p 2>&1 | tail -1
  /verif/tools/check_seed.sh $d $p 2>&1 | cut -c1-260 | head -4
done
git -C /repo status --short
