#!/bin/sh
# usage: try_mutant.sh <patch> <Cxx> [more checks...]   – apply to /repo, run quick checks, revert.
P="$1"; shift
cd /repo || exit 2
git diff --quiet || { echo "/repo has uncommitted changes"; exit 2; }
git apply "$P" || { echo "patch does not apply"; exit 2; }
for c in "$@"; do
  /verif/vcheck "$c" --tier quick > /tmp/mutant_out.txt 2>&1; rc=$?
  echo "== $c on $(basename $P): exit=$rc"; grep -E "^VIOLATION|violation-detail|MACHINERY" /tmp/mutant_out.txt | cut -c1-300 | head -8
done
git checkout -- . 
