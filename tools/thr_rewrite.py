#!/usr/bin/env python3
"""Copy /repo's working tree to a scratch directory with std's synchronisation primitives redirected.

usage: thr_rewrite.py <repo root> <destination> <path of the vsync shim crate> <state file>

Every library source file is copied; in each one the paths std::sync / core::sync / std::thread and
the thread_local! macro are redirected to the `vsync` shim crate (which re-exports shuttle's
modelled primitives), so that the controlled scheduler sees every lock, atomic, condition
variable, channel, Once and thread-local access the library performs - including any that a change
to the library introduces.  Nothing else is altered.  cargo decides freshness by modification time, and the copy is made anew for every run, so
the state file (kept next to the build output) remembers each file's content hash and the time
it was given: a file whose content is what the last build saw gets that time again, any other file
gets the current time - never the original's time, because a file restored to an *older* version
(a reverted change) would then look unchanged to cargo.

Prints one JSON object: which files were touched, which primitives were redirected, and which
constructs were seen that the scheduler cannot model (they are listed in the evidence, not
judged here).
"""
import hashlib, json, os, re, shutil, sys, time

src, dst, shim, statef = sys.argv[1], sys.argv[2], sys.argv[3], sys.argv[4]
try:
    old_state = json.load(open(statef))
except Exception:
    old_state = {}
new_state = {}
NOW = time.time()
SKIP_DIRS = {".git", "target", ".github"}

def split_top(s):
    out, depth, cur = [], 0, ""
    for ch in s:
        if ch == "{": depth += 1
        if ch == "}": depth -= 1
        if ch == "," and depth == 0:
            out.append(cur); cur = ""
        else:
            cur += ch
    if cur.strip(): out.append(cur)
    return [x.strip() for x in out if x.strip()]

USE_BLOCK = re.compile(r"(?P<vis>pub(?:\([^)]*\))?\s+)?use\s+(?:::)?(?P<root>std|core)::\{(?P<body>[^;]*)\}\s*;", re.S)

def rewrite_use_block(m):
    items = split_top(m.group("body"))
    moved, kept = [], []
    for it in items:
        head = it.split("::")[0].split("{")[0].strip()
        if head in ("sync", "thread") or it.startswith("thread_local"):
            moved.append(it)
        else:
            kept.append(it)
    if not moved:
        return m.group(0)
    vis = m.group("vis") or ""
    out = ""
    if kept:
        out += f"{vis}use {m.group('root')}::{{{', '.join(kept)}}};"
    for it in moved:
        out += f" {vis}use ::vsync::{it};"
    return out

RULES = [
    (re.compile(r"(?<![\w:])(?:::)?(?:std|core)::sync\b"), "::vsync::sync"),
    (re.compile(r"(?<![\w:])(?:::)?std::thread_local!"), "::vsync::thread_local!"),
    (re.compile(r"(?<![\w:])(?:::)?std::thread\b"), "::vsync::thread"),
    (re.compile(r"(?<![\w:!])thread_local!"), "::vsync::thread_local!"),
]
PRIMS = re.compile(r"\b(Mutex|RwLock|Condvar|Once|OnceLock|LazyLock|Barrier|mpsc|Atomic[A-Z]\w*|thread_local|spawn)\b")
UNMODELLED = re.compile(r"\b(UnsafeCell|static\s+mut|unsafe\s+impl\s+(?:Sync|Send)|OnceLock|LazyLock|once_cell|lazy_static|parking_lot|Instant::now|SystemTime::now)\b")

STATIC_HEAD = re.compile(r"(?m)^(?P<indent>[ \t]*)(?P<vis>pub(?:\([^)]*\))?[ \t]+)?static[ \t]+(?P<name>[A-Za-z_][A-Za-z0-9_]*)[ \t]*:")
STATIC_PRIM = re.compile(r"\b(Mutex|RwLock|Condvar|Once|Barrier|Atomic[A-Z]\w*|Sender|Receiver|SyncSender)\b")

def scan_until(text, i, stop):
    """index of the first `stop` character at bracket depth 0 from i on (strings and chars skipped crudely)"""
    depth = 0
    while i < len(text):
        ch = text[i]
        if ch == '"':
            i += 1
            while i < len(text) and text[i] != '"':
                i += 2 if text[i] == "\\" else 1
        elif ch in "([{":
            depth += 1
        elif ch in ")]}":
            depth -= 1
        elif ch == "<" and stop == "=":
            depth += 1
        elif ch == ">" and stop == "=" and text[i - 1] != "-" and text[i - 1] != "=":
            depth -= 1
        elif ch == stop and depth == 0:
            return i
        i += 1
    return -1

def lazy_statics(text, rel):
    """`static X: <type with a modelled primitive> = <expr>;` becomes a per-execution static: the
    scheduler's primitives do not survive from one explored execution to the next inside a plain
    `static`, and each execution must start from the state a fresh process has anyway."""
    out, pos = "", 0
    for m in STATIC_HEAD.finditer(text):
        if m.start() < pos:
            continue
        eq = scan_until(text, m.end(), "=")
        if eq < 0:
            continue
        ty = text[m.end():eq].strip()
        semi = scan_until(text, eq + 1, ";")
        if semi < 0 or not STATIC_PRIM.search(ty):
            continue
        expr = text[eq + 1:semi].strip()
        vis = m.group("vis") or ""
        out += text[pos:m.start()] + f"{m.group('indent')}::vsync::lazy_static! {{ {vis}static ref {m.group('name')}: {ty} = {expr}; }}"
        pos = semi + 1
        report.setdefault("statics_made_per_execution", []).append(f"{rel}:{m.group('name')}")
    return out + text[pos:]

report = {"files": 0, "rewritten": [], "primitives": {}, "unmodelled": {}}

def transform(text, rel):
    new = USE_BLOCK.sub(rewrite_use_block, text)
    for rx, rep in RULES:
        new = rx.sub(rep, new)
    new = lazy_statics(new, rel)
    if new != text:
        report["rewritten"].append(rel)
        for p in PRIMS.findall(new):
            report["primitives"][p] = report["primitives"].get(p, 0) + 1
    for u in UNMODELLED.findall(text):
        u = re.sub(r"\s+", " ", u)
        report["unmodelled"].setdefault(u, [])
        if rel not in report["unmodelled"][u]:
            report["unmodelled"][u].append(rel)
    return new

def put(path, data, rel):
    os.makedirs(os.path.dirname(path), exist_ok=True)
    with open(path, "wb") as f:
        f.write(data)
    h = hashlib.sha256(data).hexdigest()
    prev = old_state.get(rel)
    mtime = prev[1] if prev and prev[0] == h else NOW
    new_state[rel] = [h, mtime]
    os.utime(path, (mtime, mtime))

members = set()
for root, dirs, files in os.walk(src):
    dirs[:] = [d for d in dirs if d not in SKIP_DIRS]
    for fn in files:
        sp = os.path.join(root, fn)
        rel = os.path.relpath(sp, src)
        dp = os.path.join(dst, rel)
        if os.path.islink(sp):
            continue
        st = os.stat(sp)
        data = open(sp, "rb").read()
        parts = rel.split(os.sep)
        if fn.endswith(".rs") and "src" in parts and os.path.getsize(sp) < 4_000_000 and fn != "tld_list.rs":
            report["files"] += 1
            data = transform(data.decode("utf-8"), rel).encode("utf-8")
        elif fn == "Cargo.toml" and len(parts) == 2:
            text = data.decode("utf-8")
            if re.search(r"^\[dependencies\]\s*$", text, re.M):
                text = re.sub(r"^\[dependencies\]\s*$", f'[dependencies]\nvsync = {{ path = "{shim}" }}', text, count=1, flags=re.M)
                members.add(parts[0])
            else:
                text += f'\n[dependencies]\nvsync = {{ path = "{shim}" }}\n'
                members.add(parts[0])
            data = text.encode("utf-8")
        put(dp, data, rel)
report["crates_given_the_shim"] = sorted(members)
report["files_changed_since_last_build"] = sum(1 for r, v in new_state.items() if old_state.get(r, [None])[0] != v[0])
json.dump(new_state, open(statef, "w"))
print(json.dumps(report))
