#!/bin/bash
# Regression of the detection evidence, off to the side: every seeded change (and, with "mutants",
# every own mutant) is applied to a scratch worktree of /repo under /tmp/mx, a copy of the harness
# is built against that worktree, and the change's own property check (quick) is run.
# Output: /verif/seeded/OWN_MATRIX.txt.  Removes its scratch directory when done.
# usage: [SEEDS_DIR=<dir of seed dirs>] own_matrix.sh [shard nshards]   (shards write /tmp/OWN_MATRIX.<shard>.txt; concatenate them)
set -u
SHARD=${1:-0}; NSHARDS=${2:-1}
MX=/tmp/mx$SHARD
rm -rf $MX; mkdir -p $MX/root
git -C /repo worktree prune
git -C /repo worktree add --detach $MX/repo HEAD >/dev/null 2>&1 || { echo "cannot create worktree"; exit 2; }
rsync -a --exclude target /verif/harness/ $MX/harness/
sed -i "s#/repo/#$MX/repo/#g" $MX/harness/Cargo.toml
sed -i "s#/verif/harness/target#$MX/harness/target#" $MX/harness/.cargo/config.toml
sed "s#/verif/harness#$MX/harness#g" /verif/vcheck > $MX/vcheck; chmod +x $MX/vcheck
sed -i "s#\"/repo/public-suffix/public_suffix_list.dat\"#\"$MX/repo/public-suffix/public_suffix_list.dat\"#" $MX/harness/src/props/c10.rs
cp /verif/KNOWN_FINDINGS.txt $MX/root/
OUT=/verif/seeded/OWN_MATRIX.txt; [ $NSHARDS -gt 1 ] && OUT=/tmp/OWN_MATRIX.$SHARD.txt
: > $OUT
run_one() { # <patch> <name> <prop>
  cd $MX/repo && git checkout -q -- . && git clean -fdq
  git apply "$1" || { echo "$2: patch does not apply" >> $OUT; return; }
  cd $MX/harness
  VERIF_ROOT=$MX/root VERIF_REPO=$MX/repo VERIF_THR_TARGET=$MX/target-thr timeout 1800 $MX/vcheck $3 --tier quick > $MX/out.txt 2>&1; rc=$?
  if grep -q "harness build failed" $MX/out.txt; then echo "$2: harness does not build" >> $OUT; return; fi
  k=$(grep -c "^VIOLATION" $MX/out.txt)
  echo "$2: $3 exit=$rc violations=$k $(grep -m1 violation-detail $MX/out.txt | cut -c1-140)" >> $OUT
}
i=0
for d in ${SEEDS_DIR:-/verif/seeded}/*/; do
  i=$((i+1)); [ $((i % NSHARDS)) -eq $SHARD ] || continue
  [ -f $d/patch.diff ] || continue
  n=$(basename $d); p=${n%%-*}
  # a change whose violation belongs to another property's check names it in meta.json ("own_check")
  oc=$(python3 -c "import json;print(json.load(open('$d/meta.json')).get('own_check',''))" 2>/dev/null)
  [ -n "$oc" ] && p=$oc
  run_one $d/patch.diff $n $p
done
cd /; git -C /repo worktree remove --force $MX/repo; git -C /repo worktree prune; rm -rf $MX
cat $OUT
