#!/bin/bash
# usage: verify_seeded.sh <dir with patch.diff demo.diff meta.json> <worktree> [checks...]
# Confirms, in the scratch worktree: suite passes with the change, demo passes clean and fails
# with the change.  Then applies the change to /repo, runs the given quick checks, reverts.
D="$1"; WT="$2"; shift 2
set -u
cd "$WT" || exit 2
git checkout -q -- . ; git clean -fdq -e target
DEMO_CMD=$(python3 -c "import json;print(json.load(open('$D/meta.json'))['demo_cmd'])")
echo "--- demo on clean tree: $DEMO_CMD"
git apply "$D/demo.diff" || { echo "demo.diff does not apply"; exit 2; }
( eval "$DEMO_CMD" ) > /tmp/vs_demo_clean.log 2>&1; rc_clean=$?
echo "demo clean exit=$rc_clean"
echo "--- suite + demo with the change"
git apply "$D/patch.diff" || { echo "patch.diff does not apply"; exit 2; }
( eval "$DEMO_CMD" ) > /tmp/vs_demo_mut.log 2>&1; rc_mut=$?
echo "demo with change exit=$rc_mut"
git checkout -q -- . ; git clean -fdq -e target
git apply "$D/patch.diff"
cargo test --workspace --no-fail-fast --offline > /tmp/vs_suite.log 2>&1; rc_suite=$?
grep -E "^test result" /tmp/vs_suite.log | awk '{p+=$4; f+=$6} END {print "suite with change: passed",p,"failed",f}'
git checkout -q -- . ; git clean -fdq -e target
echo "SUMMARY suite_rc=$rc_suite demo_clean_rc=$rc_clean demo_changed_rc=$rc_mut"
if [ $# -gt 0 ]; then
  cd /repo && git diff --quiet || { echo "/repo dirty"; exit 2; }
  git apply "$D/patch.diff" || { echo "patch does not apply to /repo"; exit 2; }
  for c in "$@"; do
    /verif/vcheck "$c" --tier quick > /tmp/vs_check.log 2>&1; rc=$?
    echo "== check $c: exit=$rc"; grep -E "^VIOLATION|violation-detail|MACHINERY" /tmp/vs_check.log | cut -c1-330 | head -6
  done
  git checkout -q -- .
fi
