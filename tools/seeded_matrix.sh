#!/bin/bash
# For every seeded change: apply to /repo, run ALL quick checks, record which report a VIOLATION.
OUT=/verif/seeded/MATRIX.txt
: > $OUT
cd /repo || exit 2
git diff --quiet || { echo "/repo dirty"; exit 2; }
for d in /verif/seeded/*/; do
  n=$(basename $d)
  git apply $d/patch.diff || { echo "$n: patch does not apply" >> $OUT; continue; }
  caught=""
  for i in $(seq -w 1 19); do
    /verif/vcheck C$i --tier quick > /tmp/matrix_out.txt 2>&1; rc=$?
    if [ $rc -eq 1 ]; then caught="$caught C$i"; elif [ $rc -ne 0 ]; then caught="$caught C$i(exit$rc)"; fi
  done
  git checkout -q -- .
  echo "$n: caught by:$caught" >> $OUT
done
# leave evidence files as produced on the unchanged tree
for i in $(seq -w 1 19); do /verif/vcheck C$i --tier quick > /dev/null 2>&1; done
cat $OUT
