#!/usr/bin/env python3
"""Regenerates /verif/MANIFEST.json from the table below (kept next to the checks so that the
manifest never drifts from what is built)."""
import json, os, sys

ROOT = "/verif"
ALL = ["C%02d" % i for i in range(1, 20)]

# id -> (category, technique, level text, level note, design ref)
CHECKS = {
 "C04": ("model_checking",
         "explicit-state enumeration of the complete configuration product on the real Authenticator/Client, reference consent rule as oracle",
         "Every configuration of the finite product (operation, rk/up/uv, verification and presence capability, 7 validation outcomes, pin-auth, store kind, 4 store contents; plus the client-level userVerification dimension) is executed on the real code and compared with a 30-line reference of the consent rule, the call log order and the store snapshot. The space is finite and is enumerated completely, which is the strongest statement available for a configuration property.",
         "Harness implementations of CredentialStore/UserValidationMethod close the system; only Ok/Err class, flag bits, call order, store snapshots and equality of status bytes across store contents are compared.",
         "DESIGN.md §2 C04"),
}

NOT_BUILT = "check not built yet in this revision of the harness (planned per DESIGN.md §2); no claim is made"

def main():
    checks = []
    for pid in ALL:
        if pid not in CHECKS:
            continue
        cat, tech, text, note, ref = CHECKS[pid]
        checks.append({
            "property_id": pid,
            "quick_cmd": f"./vcheck {pid} --tier quick",
            "thorough_cmd": f"./vcheck {pid} --tier thorough",
            "evidence_file": f"/verif/evidence/{pid}.json",
            "replay_cmd_template": f"./vcheck {pid} --replay {{path}}",
            "engine": "vcheck",
            "level_claimed": {"category": cat, "text": text, "design_ref": ref},
            "level_note": note,
            "technique": tech,
        })
    hooks_commits = []
    p = os.path.join(ROOT, "tools", "hook_commits.txt")
    if os.path.exists(p):
        hooks_commits = [l.strip() for l in open(p) if l.strip()]
    m = {
        "version": 1,
        "setup_cmd": "cd /verif/harness && CARGO_NET_OFFLINE=true cargo build --release --offline",
        "hooks": {
            "guard": "cargo feature `verif-hooks` of passkey-transports",
            "enable": "the harness depends on /repo/passkey-transports by path with features = [\"verif-hooks\"]; nothing else in /repo is built differently",
            "baseline_off_cmd": "cd /repo && cargo test --workspace --no-fail-fast --offline",
            "source_commits": hooks_commits,
            "add_only": True,
        },
        "engines": [
            {"name": "vcheck", "path": "/verif/harness", "serves_properties": sorted(CHECKS.keys()),
             "kind_free_text": "Rust harness linking the real crates by path: bounded-exhaustive enumerators (E-enum), stateright explicit-state search over the real transition functions (E-graph), a deviation-bounded schedule explorer for the async ceremonies (E-sched), fault-plan x cancellation-point enumeration (E-fault) and an isolating child-process runner with a counting allocator (E-iso)"},
        ],
        "checks": checks,
        "not_applicable": [{"property_id": p, "reason": NOT_BUILT} for p in ALL if p not in CHECKS],
        "notes": "All checks run the implementation itself; verdicts come from exhaustive enumeration within the bounds stated in each evidence file. Known findings: /verif/KNOWN_FINDINGS.txt.",
    }
    json.dump(m, open(os.path.join(ROOT, "MANIFEST.json"), "w"), indent=1)
    print("wrote MANIFEST.json with", len(checks), "checks")

main()
