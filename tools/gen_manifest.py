#!/usr/bin/env python3
"""Regenerates /verif/MANIFEST.json from the table below (kept next to the checks so that the
manifest never drifts from what is built)."""
import json, os, sys

ROOT = "/verif"
ALL = ["C%02d" % i for i in range(1, 20)]

# id -> (category, technique, level text, level note, design ref)
CHECKS = {
 "C02": ("model_checking",
         "bounded-exhaustive enumeration of registration inputs plus explicit-state BFS over registration sequences on the real Client/Authenticator, independent relying-party verifier and store-delta oracle",
         "Full product of the small input dimensions (challenges incl. empty and base64url-discriminating bytes, six accepted origin/RP pairs, seven algorithm preference lists, three client-data modes, counter, two stores), all 256 requested credential-id lengths and all registration sequences to the depth bound; every returned credential is verified by a relying-party implementation written in the harness (client data, attestation object, authenticator data layout, COSE key, SPKI, algorithm) and the store delta is compared (exactly one new record with the matching private scalar, effective RP ID, fresh id of the clamped length).",
         "p256/sha2/ciborium::Value/serde_json::Value trusted; entries of unknown credential type are kept out of the alphabet; URL paths in the origin are not part of the alphabet.",
         "DESIGN.md §2 C02"),
 "C03": ("model_checking",
         "explicit-state BFS over histories of register/authenticate actions on the real Client with history replay; independent ECDSA/clientData/authData verifier as oracle",
         "All histories up to the depth bound over two RPs with credentials, a sub-domain origin of one of them and an RP without credentials, two users, six allow-list shapes, three userVerification requirements, three client-data modes and ten challenges are executed on the real client; each assertion's signature is verified under the key derived from the stored private scalar over authenticatorData || SHA-256(clientDataJSON) (or the caller's hash), and id/rawId/userHandle/rpIdHash/flags/length are checked; no eligible credential must give CredentialNotFound.",
         "Contract store only (RefStore); signature encoding DER or raw accepted; depth 3 (quick) / 4 (thorough).",
         "DESIGN.md §2 C03"),
 "C01": ("exploration",
         "bounded-exhaustive enumeration (full product of hosts x schemes x ports x RP-ID shapes x configurations, every PSL rule) on the real RpIdVerifier and Client, independent PSL matcher as oracle",
         "The (origin, RP ID) space is infinite; the check enumerates completely a finite domain built from every shortcut visible in the code (character suffixes vs. label suffixes, every rule of the shipped list incl. IDN forms, localhost shapes, IP literals, schemes, ports, both providers, web and Android) and judges every accepted pair with the implication stated in the property, using a textbook PSL matcher over the .dat file. Histories are covered too: every ordered pair (thorough: triple) of 24 representative calls on one RpIdVerifier and on one Client must give the verdict a fresh instance gives. Exhaustive over that domain, not a proof for all strings.",
         "url/idna crates trusted for URL parsing; registrability judged on the A-label form by the harness matcher; the custom provider is the harness's own.",
         "DESIGN.md §2 C01"),
 "C11": ("model_checking",
         "complete enumeration of the configuration product on the real Client/Authenticator against the WebAuthn residentKey table",
         "The product capability(3) x residentKey(5 shapes) x requireResidentKey(2) x credProps(3) at client level and capability(3) x rk(2) at CTAP2 level is finite and enumerated completely; each configuration registers and then asserts with the new credential; the rk option seen by the store, the stored user handle, credProps.rk and the assertion's userHandle are compared with the specification table typed into the harness.",
         "Harness store with configurable capability; nothing demanded for credProps false/absent.",
         "DESIGN.md §2 C11"),
 "C05": ("model_checking",
         "complete enumeration of store contents x lists x RPs x listing orders on the real Authenticator over the contract store, and of the shipped stores' find_credentials against the documented contract",
         "With a universe of four credentials (two RPs, equal user handles across RPs) all 16 store contents, three RPs, absent/empty/sub-list allow and exclude lists (incl. unknown ids and ids of the other RP) and both listing orders are run through get_assertion and make_credential; the credential that signs / the refusal is compared with the contract model. The same inputs are given to find_credentials of MemoryStore, Option<Passkey> and their four lock wrappers and compared with the contract set; wrappers are compared with the store they wrap. Descriptors carry every transports-hint shape, and the exclude clause is also explored under all interleavings with a concurrent assertion over both lock wrappers.",
         "Outcomes are demanded, not the arguments the store receives; three RP-blindness discrepancies of the shipped stores are known findings (KNOWN_FINDINGS.txt).",
         "DESIGN.md §2 C05"),
 "C06": ("exploration",
         "bounded-exhaustive enumeration of ceremonies x configurations with an output monitor searching every returned value for the stored secrets in raw/hex/decimal/base64 forms",
         "Every operation kind at every API level (WebAuthn, CTAP2, U2F, getInfo, error paths) under every hmac-secret configuration, PRF request shape, verification outcome, client-data mode and counter setting is executed; all secrets then present in the store are searched in every serialisation and Debug rendering of everything handed back, and the attested COSE key is checked for public labels only. Exhaustive over that finite product; a per-case negative control proves the scanner can find a secret in each form.",
         "Secrets are those read back from the store after the ceremony; base64 search uses the alignment-independent core of the encoding.",
         "DESIGN.md §2 C06"),
 "C09": ("model_checking",
         "complete enumeration of authenticator configurations x ceremony x verification x credential secrets x PRF input shapes on the real Client/Authenticator; results recomputed with hmac/sha2 from the secrets read back from the store",
         "The product of configurations and input shapes named in the property (about 47k quick / 109k thorough ceremonies) is enumerated completely; each PRF result must equal HMAC-SHA-256(admissible secret, specified salt), per-credential entries must win, enabled must match stored secrets, incapable authenticators must produce nothing, and malformed requests must be rejected before any authenticator or store call (checked through the call log).",
         "Second results are checked when present, never demanded; results at creation are not demanded; error codes are not compared.",
         "DESIGN.md §2 C09"),
 "C08": ("model_checking",
         "explicit-state BFS over the real get_assertion/make_credential with history replay, deduplicated on the counter vector",
         "All histories of assertions (with and without extension requests) and registrations up to the depth bound from 49 start vectors covering 0, 1, 2^31-1, 2^31, 2^32-2, 2^32-1 and counter-less credentials are executed on the real authenticator; every transition is checked against the counter invariants (previous+1 = reported = stored, counter-less never rewritten, no wrap and no panic at the maximum).",
         "Depth bound 4 (quick) / 6 (thorough); counters evolve by +1 so start values at the boundaries stand for the whole range; overflow checks on.",
         "DESIGN.md §2 C08"),
 "C10": ("exploration",
         "bounded-exhaustive enumeration (every rule-derived name, all strings over a 9-symbol alphabet up to length 6/7) against an independent PSL matcher over the shipped .dat file",
         "Every rule of the shipped list (about 9.8k) as-is, with parent/sibling and 1-3 extra labels is compared on all three lookup functions with a reference implementation of the publicsuffix.org algorithm reading the .dat file; all short strings over an alphabet that reaches plain, wildcard and exception rules, dots, upper case and non-ASCII are checked for structure and no-crash. Exhaustive over that domain.",
         "Own punycode encoder cross-checked with idna on all IDN rules at every run (disagreement = machinery error); equality demanded for canonical lower-case ASCII names only.",
         "DESIGN.md §2 C10"),
 "C04": ("model_checking",
         "explicit-state enumeration of the complete configuration product on the real Authenticator/Client, reference consent rule as oracle",
         "Every configuration of the finite product (operation, rk/up/uv, verification and presence capability, 7 validation outcomes, pin-auth, store kind, 4 store contents; plus the client-level userVerification dimension) is executed on the real code and compared with a 30-line reference of the consent rule, the call log order and the store snapshot. Six store contents include two simultaneously matching credentials; all ordered pairs of ceremonies on one authenticator with changing validation outcomes check that consent does not carry over. The space is finite and is enumerated completely, which is the strongest statement available for a configuration property.",
         "Harness implementations of CredentialStore/UserValidationMethod close the system; only Ok/Err class, flag bits, call order, store snapshots and equality of status bytes across store contents are compared.",
         "DESIGN.md §2 C04"),
 "C12": ("exploration",
         "bounded-exhaustive enumeration: full product of constructor/setter inputs, every truncation and every single-byte corruption (16 boundary values, all 256 for a representative subset) of each encoding, independent byte-level parser as oracle",
         "Values over all combinations of RP id, counter, flag subset, attested data (id lengths 0..65535) and extension outputs are encoded by the real code and parsed by a byte-level parser written from the WebAuthn layout; decoding must return an equal value; every strict prefix must be rejected and every single-byte replacement must return without panic, with reserved flag bits and missing flagged sections rejected. All sequences of up to 3 (4) setter calls out of 11 are explored as well (AT/ED exactly when the section is present, own encoding decodes). About 10^8 decodes in the quick tier; thorough adds all two-byte corruptions of the shortest encodings.",
         "AT/ED are structural so only subsets of {UP,UV,BE,BS} are assigned; corruption is exhaustive to one byte (two for the shortest encodings), not beyond.",
         "DESIGN.md §2 C12"),
 "C13": ("exploration",
         "bounded-exhaustive enumeration of presence patterns and key-level mutations of every CTAP2 message on the real (de)serialisers, inspected through a generic CBOR value; all 256 status bytes",
         "Every presence pattern of optional members of the six message types is serialised and inspected as a generic CBOR value against the specification's key numbering typed into the harness, then round-tripped; every unassigned integer key 0..255 and unknown text keys are injected (all positions), each required member removed, each member duplicated, options omitted/emptied; every status byte is converted both ways and injected as a store failure under Client::authenticate.",
         "Debug-string equality of messages; keys above 255 and negative keys are outside the property.",
         "DESIGN.md §2 C13"),
 "C14": ("exploration",
         "bounded-exhaustive enumeration of presence patterns x presentation changes of the option documents on the real serde implementations (differential against the canonical presentation), all short byte strings for base64url, emitted credentials re-parsed, client-data member order",
         "All 256 presence patterns of optional members of both option documents are combined with every single presentation change (binary members in five spellings, numbers in four, unknown members at every position of every object, unknown enumeration strings, unknown entries at every index of every lenient list incl. pubKeyCredParams with unknown alg in every member order); thorough adds all pairs. base64url identity is exhaustive to length 2/3; emitted credentials of 72 ceremonies are re-parsed; client-data member order is checked for all orders of up to three unknown members with three extra-data types.",
         "serde_json trusted as generic parser; entries of a different JSON shape and unknown credential types are outside the alphabet.",
         "DESIGN.md §2 C14"),
 "C16": ("model_checking",
         "exhaustive enumeration of all payload lengths on one channel plus explicit-state search (stateright BFS) over all interleavings of 2-4 packet streams with the real ChannelHandler as the state (cloned and snapshotted through the verif hook)",
         "Every payload length 0..7700 (and 65535/65536/70000) is sent through the real Message::send, the written bytes are parsed by the harness against the CTAPHID packet layout and fed to a fresh receiver. For 2, 3 and 4 concurrently transmitting channels with streams of 1-4 packets (all length combinations), channels sending two messages back to back and a stray continuation for an idle channel, all reachable (position vector, handler state) pairs are explored; each transition checks that a message is delivered exactly on the last packet of its stream and equals what was sent. The search is run twice with different thread counts and cross-checked by a hook-free enumeration of all complete interleavings.",
         "Long-stream interleavings are not sampled (other technique); interleavings are exhaustive for streams up to 4 packets (6 in thorough). Out-of-order packets within one channel are outside the statement.",
         "DESIGN.md §2 C16"),
 "C17": ("model_checking",
         "bounded-exhaustive enumeration of U2F inputs (every key-handle length, boundary counters, patterns) and explicit-state BFS over register/authenticate sequences on the real U2fApi; ECDSA verification and raw-message parsing by the harness as oracle",
         "Register, authenticate and unknown-handle runs for every key-handle length 0..255 and the product of challenge/application patterns, counters, presence and both stores; all well-formed extended-length request frames parsed back; all sequences of register/authenticate over two handles and two applications to the depth bound on both stores. Signatures are verified over the byte strings the U2F raw-message specification prescribes; raw encodings are parsed field by field.",
         "Signature encoding raw or DER accepted; authentication with a known handle under another application is recorded, not judged.",
         "DESIGN.md §2 C17"),
 "C07": ("fault_enumeration",
         "exhaustive enumeration of fault plans over the store calls of a ceremony x cancellation after every possible number of resumptions, on the real Authenticator; store snapshots and call log compared with a model applying only the calls that returned Ok",
         "For eleven request shapes and three store stacks every single store call is failed with six status codes (all 256 in thorough), every subset of calls is failed together, and for every such plan the ceremony is additionally dropped after each k < polls-to-completion (every store call and the user step suspend once). The store snapshot after each run must equal the one before (registration error), before or before+one complete record (cancelled registration), before modulo counter+1 (failed/cancelled assertion); success requires an accepted save/update carrying the reported counter; an injected save/update fault must surface as an error.",
         "A fault replaces the store call; lookup faults of the exclude-list need not surface; error bytes recorded, not compared.",
         "DESIGN.md §2 C07"),
 "C19": ("model_checking",
         "stateless schedule exploration (deviation-bounded DFS over a harness-owned single-threaded executor) of 2-3 concurrent ceremonies on real Authenticators sharing the real tokio lock wrappers",
         "Every complete interleaving at suspension points of two concurrent ceremonies (no preemption bound) and every interleaving with at most 2 (quick) / 3 (thorough) preemptions of three ceremonies is executed for assert/assert (same and different credential), assert/register, register/register and three-task mixes over Arc<Mutex<_>> and Arc<RwLock<_>> around MemoryStore and Option<Passkey>; after each schedule: no deadlock/livelock, every registered credential present, counters of successful assertions per credential pairwise distinct with maximum equal to the stored value. The lost-update race on the counter is a known finding (10 keys).",
         "Await-point interleavings only; tokio's lock internals trusted; suspension points are owned by harness shims around every store call, inside the lock, and in user validation.",
         "DESIGN.md §2 C19"),
 "C15": ("exploration",
         "bounded-exhaustive enumeration of short inputs and of every single deviation (truncation, every byte value, CBOR/JSON/text splices incl. huge declared lengths and deep nesting) of valid seed encodings for 26 public decoders, executed in isolated worker processes with a counting allocator, stack limit and watchdog; explicit-state BFS over CTAPHID packet sequences on the real handler",
         "The property is unbounded; the check decides its bounded version and says so: all byte strings to length 2 (3), all strings over 8-symbol alphabets to length 5 (7), every one-deviation neighbour (two on short seeds in thorough) of valid encodings of every message type, and all packet sequences to depth 2-4 (3-6) over a 300-packet alphabet with state deduplication through the hook snapshot. A panic, a worker death (abort, stack overflow, refused allocation above 1 GiB), a single allocation above 4 MiB + 32 bytes per input byte (for CTAPHID: above 16 x the bytes received so far + 2 KiB) or a case exceeding the time limit is a verdict for that input, keyed by decoder + panic site + class.",
         "Thresholds are orders of magnitude above normal behaviour; coset/ciborium/serde_json are exercised as dependencies of the decoders; one direct-call panic (AuthenticationRequest::try_from with an out-of-spec P1) is a known finding.",
         "DESIGN.md §2 C15"),
 "C18": ("model_checking",
         "differential enumeration of every CTAP2-level configuration through the inherent methods and through the Ctap2Api trait on identically seeded authenticators, in isolated worker processes with stack limit and watchdog",
         "All configurations of the C04 product x store contents x two stores x PRF on/off (about 6.7k quick, 13k thorough) and getInfo for every capability are run both ways; result (status byte or the full response including the deterministic signature, fresh ids normalised), store snapshot and store writes must agree; pairs/triples of operations on one authenticator with a capability change in between are compared the same way; termination is decided by the isolated worker: a stack overflow or watchdog expiry during a trait call is the verdict for that case.",
         "ECDSA signing is deterministic (RFC 6979), so signatures are compared byte for byte; lookups and capability queries are not an effect and may differ.",
         "DESIGN.md §2 C18"),
}

# additions made after the first version of each check (seeded rounds 2-4), appended to the level text
ADD = {
 "C01": " Host names are also taken from a constants dictionary (every string literal of the client and public-suffix sources that can be a label or name - which includes every label of the generated suffix table - alone, below and above a registrable domain and with a letter glued on either side), and custom providers fail with each of their error variants. Schemes include near misses of https (httpsx, https2, https+unix, xhttps, ...). A second, hand-encoded generated table behind the generic list provider is a third provider kind. Clients and verifiers that reach their localhost setting through the opposite setting.",
 "C02": " Extension interplay is a dimension (hmac-secret configurations of the authenticator, credProps/prf members in the request), also inside the sequences. Eight origins incl. effective RP ids of 33 and 64 bytes. A run of 96 (400) registrations on one thread with a freshness oracle for credential ids and secrets. The check also runs against the library built with its cargo feature serialize_bytes_as_base64_string. The whole exploration runs twice: without a log backend and with one at level Trace. Android app origins with non-canonical host spellings.",
 "C03": " Extension interplay (authenticator with hmac-secret, credProps / empty prf / prf on an incapable authenticator) and allow-list entries of unknown type are part of the action alphabet. Six origins (incl. an explicit non-default port and the Android origin). Instance differential: the complete tree of histories over nine operations on one long-lived Authenticator against fresh Authenticators per operation, three store kinds. Three authenticators on one thread whose stores hold the same credential id with different keys (and a U2F handle registered twice): every signature must verify under the key of its own store. Extra client data under every name of a dictionary (sources and related specifications). The check also runs against the library built with its cargo feature serialize_bytes_as_base64_string. The whole exploration runs twice: without a log backend and with one at level Trace. A ClientData whose extra data changes at every call.",
 "C04": " At CTAP2 level the whole product also runs on an authenticator with hmac-secret enabled, credentials carrying secrets and requests asking for a PRF evaluation. Requests also reach the authenticator in three wire presentations (encoded+decoded, default-valued options elided, empty options map dropped). The store's listing order is also reversed while the user step is pending. Ceremony pairs with the verification capability changing in between. A store entry replaced under a long-lived authenticator by a credential with the same id and another key.",
 "C05": " RP IDs also in upper case and with a trailing dot; descriptors with five transports-hint shapes; stores that answer Ok(empty). Listed ids also in a value relation to a held id (strict prefix, one more byte, empty). Lists of 64..129 entries. Colliding credential ids across authenticators: a credential is used with its own key. PRF inputs per credential naming every id of the universe on an hmac-secret authenticator. The whole exploration runs twice: without a log backend and with one at level Trace. A store and user-validation method whose items may fail to convert to a Passkey.",
 "C06": " A credential created by the library itself is additionally asserted (CTAP2 level and through the client with pre-hashed inputs) with every salt of a constants dictionary: each string literal of the library sources of the current working tree as SHA-256, zero-padded, and under the client's salt derivation. The public-key converter applied to every stored key is scanned as an output. A long run of registrations on one thread: no credential id shares material with a stored secret. The check also runs against the library built with its cargo feature serialize_bytes_as_base64_string. It also runs against the optimised build without debug assertions and overflow checks. The whole exploration runs twice: without a log backend and with one at level Trace.",
 "C07": " Silent assertions (up=false) with and without PRF, late-failing requests. Three request shapes run through the WebAuthn client (credProps, credProps+prf, prf) under the same fault plans and cancellation points. Requests on a credential whose stored counter is 2^32-1. Two listed credentials with counters of which the first-listed fails after its counter write. Store faults with every status the library raises itself.",
 "C08": " The same histories also on Arc<Mutex<MemoryStore>>; silent assertions. 504 ceremonies through Client::authenticate (at most one write-back, advance by at most one, success reports the stored value); instance differential. Client ceremonies also with gated-only secrets and unverified users; a counter-less credential sees no write-back. Credentials entering through the public U2F constructors of Passkey. It also runs against the optimised build without debug assertions and overflow checks. The whole exploration runs twice: without a log backend and with one at level Trace. Legacy credentials with an empty rp_id.",
 "C09": " Quick tier covers salt lengths {0,16,32,33,64} and two-salt requests. Default inputs also from the constants dictionary (raw and pre-hashed). Every input length 0..300. Stored secrets of 0..255 bytes.",
 "C10": " Every label of the list's vocabulary is crossed with every rule body (quick: the 64 most frequent labels). Findings carry the last three lookups of their worker thread and are replayed on a fresh thread alone and after that history; ordered five-name sequences per rule with labels shared across levels. The other three IDNA label separators in place of a dot. A second generated table is looked up before, between and after the default-table lookups. Labels made of a table label plus 256..65536 filler bytes. Numeric labels (dotted quads).",
 "C11": " The product additionally runs over hmac-secret configuration (4) x prf input (3) x counters: 1956 configurations. The store is handed over bare and inside each shipped lock wrapper. Authenticators that earlier answered getInfo / registered while the store had another capability. The product also from an Android app origin. The whole exploration runs twice: without a log backend and with one at level Trace. The store's capability changes while the user step is pending.",
 "C13": " A further value variant has every nested optional structure and list present but empty, and every serialisation must be exactly one CBOR map spanning all bytes written. One variant repeats entries in every list. Wide-key mutations: members moved to / repeated under keys of 2, 3, 5 bytes with the same low byte. 1023- and 1024-byte credential ids inside the makeCredential response. Case and underscore variants of member names as unknown text keys.",
 "C15": " Scaling families: 14 well-formed shapes whose collection grows to 256..16384 (65536) elements with keys differing only at the front / end / middle; 4x the elements may cost at most 9x the thread CPU time and no allocation out of proportion. A 28th decoder looks names up through a second table between default-table lookups. Well-formed base64 text of every decoded length 0..4200 (20000). It also runs against the optimised build without debug assertions and overflow checks. The whole exploration runs twice: without a log backend and with one at level Trace. 1..300 (4096) CTAPHID channels transmitting at once.",
 "C17": " Control byte {0x03,0x07,0x08} x further flag bits in every single run. Third store Arc<Mutex<Option<Passkey>>>; unknown handles are the registered handle plus / minus a byte, with one byte changed, and the empty handle. Sequences run on one authenticator, complete history tree to depth 4 (5) before merging, third system = single-slot store; instance differential over U2F operations. CTAP2 assertions with the U2F-registered credential before the U2F authentication. A store that returns COSE key members in reverse order.",
 "C18": " Present-but-empty allow/exclude lists; descriptor type {public-key, unknown}; sequence alphabet of six operations. Store failures with seven status values, compared as values (two values share byte 0x00). Instance differential incl. trait calls dropped while the user step is pending. User handles / ids of 900 and 4000 bytes. A sloppy store that ignores the id list.",
 "C19": " Non-resident registrations and list-less assertions are part of the scenarios. A store that loses one counter write-back: two assertions in sequence, alone and next to a registration. An ordinary assertion followed by two silent ones in one task. Authenticators with different hmac-secret configurations sharing one store. A ceremony failing after its counter write next to an assertion; U2F registration followed by CTAP2 assertions. The whole exploration runs twice: without a log backend and with one at level Trace. A store listing by recency; no reported counter at or below the value stored before.",
 "C12": " RP ids in six spellings (upper case, android facet, trailing dot). Key shapes compressed EC2, OKP, EC2 with key id and unregistered parameter; RP ids of 33 and 64 bytes. COSE key members in non-canonical order. The serde form is one CBOR byte string holding to_vec(). The check also runs against the library built with its cargo feature serialize_bytes_as_base64_string. It also runs against the optimised build without debug assertions and overflow checks. Credential ids around multiples of 4 KiB.",
 "C14": " Emitted credentials for three user ids (default, empty, 64 bytes). Named undeclared members from a constants dictionary in every object, seven value shapes, and standing in for each declared member. Emitted credentials for authenticator transports {default, none, one}. Three parse routes (text, owned Value, reader) must agree on accepted documents. The check also runs against the library built with its cargo feature serialize_bytes_as_base64_string. Challenges of 255..100000 bytes in five presentations.",
 "C16": " Starvation family: a message held back between two of its packets while other channels send 0..300 (1100), 1024, 2048, 4096, 10000 packets of whole messages in three traffic shapes. Every delivered message is sent again and must be written as the same packets. A writer that implements only write/flush receives the same bytes. It also runs against the optimised build without debug assertions and overflow checks. The whole exploration runs twice: without a log backend and with one at level Trace. 1..300 (4096) channels at once; writers that fail at a packet, once or for good.",
}

NOT_BUILT = "check not built yet in this revision of the harness (planned per DESIGN.md §2); no claim is made"

def main():
    checks = []
    for pid in ALL:
        if pid not in CHECKS:
            continue
        cat, tech, text, note, ref = CHECKS[pid]
        checks.append({
            "property_id": pid,
            "quick_cmd": f"./vcheck {pid} --tier quick",
            "thorough_cmd": f"./vcheck {pid} --tier thorough",
            "evidence_file": f"/verif/evidence/{pid}.json",
            "replay_cmd_template": f"./vcheck {pid} --replay {{path}}",
            "engine": "vcheck",
            "level_claimed": {"category": cat, "text": text + ADD.get(pid, ""), "design_ref": ref},
            "level_note": note,
            "technique": tech,
        })
    hooks_commits = []
    p = os.path.join(ROOT, "tools", "hook_commits.txt")
    if os.path.exists(p):
        hooks_commits = [l.strip() for l in open(p) if l.strip()]
    m = {
        "version": 1,
        "setup_cmd": "cd /verif/harness && CARGO_NET_OFFLINE=true cargo build --release --offline && CARGO_NET_OFFLINE=true cargo build --release --offline --features b64bytes --target-dir /verif/harness/target-b64 && CARGO_NET_OFFLINE=true cargo build --profile plain --offline",
        "hooks": {
            "guard": "cargo feature `verif-hooks` of passkey-transports",
            "enable": "the harness depends on /repo/passkey-transports by path with features = [\"verif-hooks\"]; nothing else in /repo is built differently",
            "baseline_off_cmd": "cd /repo && cargo test --workspace --no-fail-fast --offline",
            "source_commits": hooks_commits,
            "add_only": True,
        },
        "engines": [
            {"name": "vcheck", "path": "/verif/harness", "serves_properties": sorted(CHECKS.keys()),
             "kind_free_text": "Rust harness linking the real crates by path: bounded-exhaustive enumerators (E-enum), stateright explicit-state search over the real transition functions (E-graph), a deviation-bounded schedule explorer for the async ceremonies (E-sched), fault-plan x cancellation-point enumeration (E-fault) and an isolating child-process runner with a counting allocator (E-iso)"},
        ],
        "checks": checks,
        "not_applicable": [{"property_id": p, "reason": NOT_BUILT} for p in ALL if p not in CHECKS],
        "notes": "All checks run the implementation itself; verdicts come from exhaustive enumeration within the bounds stated in each evidence file. Known findings: /verif/KNOWN_FINDINGS.txt.",
    }
    json.dump(m, open(os.path.join(ROOT, "MANIFEST.json"), "w"), indent=1)
    print("wrote MANIFEST.json with", len(checks), "checks")

main()
