#!/bin/bash
# usage: check_seed.sh <dir with patch.diff> <checks...>  – apply to /repo, run quick checks, revert
D="$1"; shift
cd /repo && git diff --quiet || { echo "/repo dirty"; exit 2; }
git apply "$D/patch.diff" || { echo "patch does not apply"; exit 2; }
for c in "$@"; do
  /verif/vcheck "$c" --tier quick > /tmp/cs_out.txt 2>&1; rc=$?
  echo "== $c on $(basename $D): exit=$rc"; grep -E "violation-detail|MACHINERY" /tmp/cs_out.txt | cut -c1-260 | head -4
done
git checkout -q -- .
