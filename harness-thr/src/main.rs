//! Engine E-thread: exhaustive exploration of OS-thread interleavings of the real library code.
//!
//! The library sources this binary is linked against are a copy of /repo's working tree in which
//! `std::sync`, `core::sync`, `std::thread` and `thread_local!` resolve to shuttle's modelled
//! primitives (tools/thr_rewrite.py).  Every scenario below shares whatever the library lets
//! callers share between threads (one `&self` object, or nothing but the process) among two or
//! three shuttle threads and lets shuttle's depth-first scheduler enumerate *every* interleaving
//! of the scheduling points (each lock, atomic, condvar, channel, Once, thread-local operation).
//! The oracle is differential: each call must return exactly what the same call returns on a fresh
//! object used by one thread alone (computed under the same build).
//!
//! Output: one JSON object on stdout; violations carry the scenario and case so that a replay can
//! re-run that one case's exploration (depth-first order is deterministic).
use std::collections::BTreeMap;
use std::panic::{catch_unwind, AssertUnwindSafe};
use std::sync::atomic::{AtomicUsize, Ordering};
use std::sync::{Arc, Mutex as StdMutex};

use passkey_authenticator::{Authenticator, UserCheck, UserValidationMethod};
use passkey_client::{Client, DefaultClientData, Origin, RpIdVerifier, UnverifiedAssetLink};
use passkey_types::{ctap2::Aaguid, ctap2::Ctap2Error, webauthn, Passkey};
use public_suffix::{EffectiveTLDProvider, PublicSuffixList};
use url::Url;

const FP: &str = "B3:5B:68:D5:CE:84:50:55:7C:6A:55:FD:64:B5:1F:EA:C1:10:CB:36:D6:A3:52:1C:59:48:DB:3A:38:0A:34:A9";

// ---------------------------------------------------------------------------------------------
// operations
// ---------------------------------------------------------------------------------------------
#[derive(Clone, Debug, PartialEq, Eq, PartialOrd, Ord)]
enum Op {
    /// public-suffix: 0 effective_tld_plus_one, 1 public_suffix, 2 is_effective_tld
    Psl(u8, &'static str),
    /// RpIdVerifier::assert_domain(origin, rp_id)
    Assert(&'static str, Option<&'static str>),
    /// RpIdVerifier::assert_domain(android origin with this host, rp_id)
    AssertAndroid(&'static str, Option<&'static str>),
    /// RpIdVerifier::is_valid_rp_id
    Valid(&'static str),
}

const NAMES: &[&str] = &["www.example.co.uk", "example.com", "a.b.c.kobe.jp", "city.kobe.jp", "uk", "co.uk", "x.y.unlisted-tld", "a.github.io", "xn--55qx5d.cn"];
const NAMES_SMALL: &[&str] = &["www.example.co.uk", "example.com", "co.uk", "a.b.c.kobe.jp"];

fn psl_ops(names: &[&'static str], kinds: &[u8]) -> Vec<Op> {
    let mut v = vec![];
    for n in names {
        for k in kinds {
            v.push(Op::Psl(*k, n));
        }
    }
    v
}
const ORIGINS: &[&str] = &["https://www.example.co.uk", "https://example.com", "https://sub.example.com", "http://localhost:8080", "https://a.xn--55qx5d.cn"];
const RPS: &[Option<&str>] = &[None, Some("co.uk"), Some("example.co.uk"), Some("uk"), Some("example.com"), Some("com"), Some("localhost"), Some("xn--55qx5d.cn")];
fn verifier_ops(small: bool) -> Vec<Op> {
    let mut v = vec![];
    if small {
        v.push(Op::Assert("https://www.example.co.uk", Some("co.uk")));
        v.push(Op::Assert("https://www.example.co.uk", Some("example.co.uk")));
        v.push(Op::Assert("https://example.com", None));
        v.push(Op::Assert("https://example.com", Some("com")));
        v.push(Op::Valid("uk"));
        v.push(Op::Valid("example.com"));
        v.push(Op::AssertAndroid("www.example.co.uk", Some("co.uk")));
        v.push(Op::AssertAndroid("example.com", None));
        return v;
    }
    for o in ORIGINS {
        for r in RPS {
            v.push(Op::Assert(o, *r));
        }
    }
    for r in RPS.iter().flatten() {
        v.push(Op::Valid(r));
    }
    for h in ["www.example.co.uk", "example.com"] {
        for r in RPS {
            v.push(Op::AssertAndroid(h, *r));
        }
    }
    v
}

/// What the two kinds of shared object are.
#[derive(Clone)]
enum Shared {
    Psl(Arc<PublicSuffixList>),
    Verifier(Arc<RpIdVerifier<PublicSuffixList>>),
}
fn fresh(kind: u8) -> Shared {
    match kind {
        0 => Shared::Psl(Arc::new(PublicSuffixList::new())),
        1 => Shared::Verifier(Arc::new(RpIdVerifier::new(PublicSuffixList::new()))),
        _ => Shared::Verifier(Arc::new(RpIdVerifier::new(PublicSuffixList::new()).allows_insecure_localhost(true))),
    }
}

fn run_op(sh: &Shared, op: &Op) -> String {
    let r = catch_unwind(AssertUnwindSafe(|| match (sh, op) {
        (Shared::Psl(p), Op::Psl(0, n)) => format!("{:?}", p.effective_tld_plus_one(n)),
        (Shared::Psl(p), Op::Psl(1, n)) => format!("{:?}", p.public_suffix(n)),
        (Shared::Psl(p), Op::Psl(_, n)) => format!("{:?}", p.is_effective_tld(n)),
        (Shared::Verifier(v), Op::Assert(o, rp)) => {
            let url = Url::parse(o).expect("harness url");
            let origin = Origin::Web(std::borrow::Cow::Borrowed(&url));
            format!("{:?}", v.assert_domain(&origin, *rp))
        }
        (Shared::Verifier(v), Op::AssertAndroid(h, rp)) => {
            let link = UnverifiedAssetLink::new("com.example.app", FP, *h, Url::parse("https://example.com/.well-known/assetlinks.json").unwrap()).expect("harness: asset link");
            let origin = Origin::Android(link);
            format!("{:?}", v.assert_domain(&origin, *rp))
        }
        (Shared::Verifier(v), Op::Valid(rp)) => format!("{:?}", v.is_valid_rp_id(rp)),
        _ => "harness: op does not fit object".into(),
    }));
    match r {
        Ok(s) => s,
        Err(p) => format!("PANIC: {}", panic_text(&p)),
    }
}
fn panic_text(p: &Box<dyn std::any::Any + Send>) -> String {
    p.downcast_ref::<String>().cloned().or_else(|| p.downcast_ref::<&str>().map(|s| s.to_string())).unwrap_or_else(|| "?".into())
}

// ---------------------------------------------------------------------------------------------
// ceremonies on two threads that share nothing but the process (C02 / C03)
// ---------------------------------------------------------------------------------------------
struct Uv;
#[async_trait::async_trait]
impl UserValidationMethod for Uv {
    type PasskeyItem = Passkey;
    async fn check_user<'a>(&self, _c: Option<&'a Passkey>, presence: bool, verification: bool) -> Result<UserCheck, Ctap2Error> {
        Ok(UserCheck { presence, verification })
    }
    fn is_presence_enabled(&self) -> bool {
        true
    }
    fn is_verification_enabled(&self) -> Option<bool> {
        Some(true)
    }
}
type Cl = Client<Option<Passkey>, Uv, PublicSuffixList>;
fn mk_client() -> Cl {
    Client::new(Authenticator::new(Aaguid::new_empty(), None, Uv))
}
fn creation(rp: Option<&str>, tag: u8) -> webauthn::CredentialCreationOptions {
    webauthn::CredentialCreationOptions {
        public_key: webauthn::PublicKeyCredentialCreationOptions {
            rp: webauthn::PublicKeyCredentialRpEntity { id: rp.map(|s| s.to_string()), name: "rp".into() },
            user: webauthn::PublicKeyCredentialUserEntity { id: vec![tag, 9].into(), name: format!("user{tag}"), display_name: format!("user{tag}") },
            challenge: vec![tag, 2, 3, 4].into(),
            pub_key_cred_params: vec![webauthn::PublicKeyCredentialParameters { ty: webauthn::PublicKeyCredentialType::PublicKey, alg: coset::iana::Algorithm::ES256 }],
            timeout: None,
            exclude_credentials: None,
            authenticator_selection: None,
            hints: None,
            attestation: Default::default(),
            attestation_formats: None,
            extensions: None,
        },
    }
}
fn request(rp: Option<&str>, tag: u8) -> webauthn::CredentialRequestOptions {
    webauthn::CredentialRequestOptions {
        public_key: webauthn::PublicKeyCredentialRequestOptions {
            challenge: vec![tag, 7, 7].into(),
            timeout: None,
            rp_id: rp.map(|s| s.to_string()),
            allow_credentials: None,
            user_verification: Default::default(),
            hints: None,
            attestation: Default::default(),
            attestation_formats: None,
            extensions: None,
        },
    }
}
/// (origin, rp id asked for, effective rp id)
const PARTIES: &[(&str, Option<&str>, &str)] = &[
    ("https://www.example.co.uk", Some("example.co.uk"), "example.co.uk"),
    ("https://example.com", None, "example.com"),
    ("https://login.other.org", Some("other.org"), "other.org"),
];
fn sha256(b: &[u8]) -> Vec<u8> {
    use sha2::Digest;
    sha2::Sha256::digest(b).to_vec()
}
fn hex(b: &[u8]) -> String {
    b.iter().map(|x| format!("{x:02x}")).collect()
}
/// A registration followed by `asserts` assertions by one client; the transcript names everything
/// a relying party or the user could observe except the random key and credential id, and says
/// whether the signatures verify under the key the registration returned.
fn ceremony(party: usize, tag: u8, asserts: usize, pre: Option<Cl>) -> (String, Cl) {
    let (origin, rp, eff) = PARTIES[party];
    let url = Url::parse(origin).unwrap();
    let mut cl = pre.unwrap_or_else(mk_client);
    let mut t = String::new();
    let r = catch_unwind(AssertUnwindSafe(|| {
        let mut t = String::new();
        let reg = shuttle::future::block_on(cl.register(&url, creation(rp, tag), DefaultClientData));
        let mut vk = None;
        match reg {
            Err(e) => t.push_str(&format!("register: {e:?};")),
            Ok(c) => {
                let ad = &c.response.authenticator_data;
                t.push_str(&format!("register: rpIdHash_ok={} flags={:02x} counter={:?} cdj={} att_rp_ok={};", ad[..32] == sha256(eff.as_bytes())[..], ad[32], &ad[33..37], String::from_utf8_lossy(&c.response.client_data_json), {
                    let att: BTreeMap<String, ciborium::Value> = ciborium::de::from_reader(&c.response.attestation_object[..]).unwrap_or_default();
                    match att.get("authData") {
                        Some(ciborium::Value::Bytes(b)) => (b[..32] == sha256(eff.as_bytes())[..]).to_string(),
                        _ => "no-authData".into(),
                    }
                }));
                vk = c.response.public_key.as_ref().map(|k| k.to_vec());
                let stored = shuttle::future::block_on(async { cl.authenticator().store().clone() });
                t.push_str(&format!("stored: rp={:?} user={:?} counter={:?} id_matches={};", stored.as_ref().map(|p| p.rp_id.clone()), stored.as_ref().map(|p| p.user_handle.as_ref().map(|u| hex(u))), stored.as_ref().map(|p| p.counter), stored.as_ref().map(|p| p.credential_id.to_vec()) == Some(c.raw_id.to_vec())));
            }
        }
        for i in 0..asserts {
            let a = shuttle::future::block_on(cl.authenticate(&url, request(rp, tag + i as u8), DefaultClientData));
            match a {
                Err(e) => t.push_str(&format!("assert{i}: {e:?};")),
                Ok(a) => {
                    let ad = &a.response.authenticator_data;
                    let mut msg = ad.to_vec();
                    msg.extend_from_slice(&sha256(&a.response.client_data_json));
                    let sig_ok = match &vk {
                        Some(der) => {
                            use p256::ecdsa::signature::Verifier;
                            use p256::pkcs8::DecodePublicKey;
                            match (p256::ecdsa::VerifyingKey::from_public_key_der(der), p256::ecdsa::Signature::from_der(&a.response.signature)) {
                                (Ok(k), Ok(s)) => k.verify(&msg, &s).is_ok().to_string(),
                                _ => "undecodable".into(),
                            }
                        }
                        None => "no-key".into(),
                    };
                    t.push_str(&format!("assert{i}: rpIdHash_ok={} flags={:02x} counter={:?} cdj={} user={:?} sig_ok={sig_ok};", ad[..32] == sha256(eff.as_bytes())[..], ad[32], &ad[33..37], String::from_utf8_lossy(&a.response.client_data_json), a.response.user_handle.as_ref().map(|u| hex(u))));
                }
            }
        }
        t
    }));
    match r {
        Ok(s) => t.push_str(&s),
        Err(p) => t.push_str(&format!("PANIC: {}", panic_text(&p))),
    }
    (t, cl)
}

// ---------------------------------------------------------------------------------------------
// exploration
// ---------------------------------------------------------------------------------------------
#[derive(Default)]
struct Stats {
    cases: usize,
    executions: usize,
    capped_cases: usize,
    max_executions_in_a_case: usize,
    outcomes: std::collections::BTreeSet<String>,
    violations: Vec<serde_json::Value>,
}

/// Explore one case exhaustively (or up to `cap` executions); `body` returns Err(detail) on an
/// oracle mismatch.  Returns (executions, capped, first failure).
fn explore(cap: usize, body: impl Fn() -> Result<Vec<String>, String> + Send + Sync + 'static, outcomes: &Arc<StdMutex<std::collections::BTreeSet<String>>>) -> (usize, bool, Option<String>) {
    let n = Arc::new(AtomicUsize::new(0));
    let n2 = n.clone();
    let oc = outcomes.clone();
    let failure: Arc<StdMutex<Option<String>>> = Arc::new(StdMutex::new(None));
    let f2 = failure.clone();
    let res = catch_unwind(AssertUnwindSafe(move || {
        shuttle::check_dfs(
            move || {
                // after the first failure the remaining schedules of this case are not run (the
                // body is skipped, not aborted: tearing an execution down by a panic would leave
                // process-wide primitives of the library in whatever state the schedule had reached)
                if f2.lock().unwrap().is_some() {
                    return;
                }
                n2.fetch_add(1, Ordering::Relaxed);
                match body() {
                    Ok(obs) => {
                        let mut o = oc.lock().unwrap();
                        for s in obs {
                            if o.len() < 4096 {
                                o.insert(s);
                            }
                        }
                    }
                    Err(d) => {
                        *f2.lock().unwrap() = Some(d);
                    }
                }
            },
            Some(cap),
        )
    }));
    let ex = n.load(Ordering::Relaxed);
    let fail = failure.lock().unwrap().clone();
    let fail = match (res, fail) {
        (_, Some(d)) => Some(d),
        (Err(p), None) => Some(format!("exploration aborted: {}", panic_text(&p).lines().next().unwrap_or("").chars().take(300).collect::<String>())),
        (Ok(()), None) => None,
    };
    (ex, ex >= cap, fail)
}

/// Expected answers: every operation on a fresh object, one thread.
fn expected(kind: u8, ops: &[Op]) -> BTreeMap<Op, String> {
    let out: Arc<StdMutex<BTreeMap<Op, String>>> = Arc::new(StdMutex::new(BTreeMap::new()));
    let o2 = out.clone();
    let ops = ops.to_vec();
    shuttle::check_dfs(
        move || {
            for op in &ops {
                let sh = fresh(kind);
                let r = run_op(&sh, op);
                o2.lock().unwrap().insert(op.clone(), r);
            }
        },
        Some(1),
    );
    let r = out.lock().unwrap().clone();
    r
}

struct Case {
    name: String,
    kind: u8,
    prefix: Vec<Op>,
    threads: Vec<Vec<Op>>,
}

fn shared_object_cases(prop: &str, thorough: bool) -> Vec<Case> {
    let mut cases = vec![];
    let kinds: &[u8] = if prop == "C10" { &[0] } else { &[1, 2] };
    for &kind in kinds {
        let (full, small): (Vec<Op>, Vec<Op>) = if kind == 0 { (psl_ops(NAMES, &[0, 1, 2]), psl_ops(NAMES_SMALL, &[0, 1])) } else { (verifier_ops(false), verifier_ops(true)) };
        // A: two threads, one call each, the whole alphabet
        let a_ops = if kind == 2 && !thorough { &small } else { &full };
        for (i, a) in a_ops.iter().enumerate() {
            for (j, b) in a_ops.iter().enumerate() {
                cases.push(Case { name: format!("k{kind}/A/{i}.{j}"), kind, prefix: vec![], threads: vec![vec![a.clone()], vec![b.clone()]] });
            }
        }
        // B: the object was used before it was shared (non-initial state), two threads, one call each
        for (p, pre) in small.iter().enumerate() {
            for (i, a) in small.iter().enumerate() {
                for (j, b) in small.iter().enumerate() {
                    cases.push(Case { name: format!("k{kind}/B/{p}.{i}.{j}"), kind, prefix: vec![pre.clone()], threads: vec![vec![a.clone()], vec![b.clone()]] });
                }
            }
        }
        // C: two threads, two calls each
        let c_ops: Vec<Op> = if thorough { small.clone() } else { small.iter().take(4).cloned().collect() };
        for (i, a) in c_ops.iter().enumerate() {
            for (j, b) in c_ops.iter().enumerate() {
                for (k, c) in c_ops.iter().enumerate() {
                    for (l, d) in c_ops.iter().enumerate() {
                        cases.push(Case { name: format!("k{kind}/C/{i}.{j}.{k}.{l}"), kind, prefix: vec![], threads: vec![vec![a.clone(), b.clone()], vec![c.clone(), d.clone()]] });
                    }
                }
            }
        }
        // D: three threads, one call each
        for (i, a) in c_ops.iter().enumerate() {
            for (j, b) in c_ops.iter().enumerate() {
                for (k, c) in c_ops.iter().enumerate() {
                    cases.push(Case { name: format!("k{kind}/D/{i}.{j}.{k}"), kind, prefix: vec![], threads: vec![vec![a.clone()], vec![b.clone()], vec![c.clone()]] });
                }
            }
        }
    }
    cases
}

fn run_shared_case(case: &Case, exp: &Arc<BTreeMap<Op, String>>, cap: usize, outcomes: &Arc<StdMutex<std::collections::BTreeSet<String>>>) -> (usize, bool, Option<String>) {
    let kind = case.kind;
    let prefix = case.prefix.clone();
    let threads = case.threads.clone();
    let exp = exp.clone();
    explore(
        cap,
        move || {
            let sh = fresh(kind);
            let mut obs = vec![];
            for op in &prefix {
                let r = run_op(&sh, op);
                if Some(&r) != exp.get(op) {
                    return Err(format!("{op:?} before sharing answered {r}, alone on a fresh object it answers {}", exp.get(op).cloned().unwrap_or_default()));
                }
            }
            let hs: Vec<_> = threads
                .iter()
                .cloned()
                .map(|ops| {
                    let sh = sh.clone();
                    shuttle::thread::spawn(move || ops.iter().map(|op| (op.clone(), run_op(&sh, op))).collect::<Vec<_>>())
                })
                .collect();
            let mut bad = None;
            for (t, h) in hs.into_iter().enumerate() {
                match h.join() {
                    Ok(rs) => {
                        for (op, r) in rs {
                            if Some(&r) != exp.get(&op) && bad.is_none() {
                                bad = Some(format!("thread {t}: {op:?} answered {r} while other threads used the same object; alone on a fresh object it answers {}", exp.get(&op).cloned().unwrap_or_default()));
                            }
                            obs.push(format!("{op:?}={r}"));
                        }
                    }
                    Err(_) => bad = bad.or(Some(format!("thread {t} panicked outside the guarded call"))),
                }
            }
            match bad {
                Some(b) => Err(b),
                None => Ok(obs),
            }
        },
        outcomes,
    )
}

/// Ceremony scenarios: each thread owns its client, authenticator and store.
struct CerCase {
    name: String,
    /// per thread: (party, tag)
    threads: Vec<(usize, u8)>,
    asserts: usize,
    /// registration happens before the threads start (C03: only the assertions overlap)
    register_first: bool,
}
fn ceremony_cases(prop: &str, thorough: bool) -> Vec<CerCase> {
    let mut v = vec![];
    let asserts = if prop == "C02" { 0 } else { if thorough { 2 } else { 1 } };
    let modes: &[bool] = if prop == "C02" { &[false] } else { &[false, true] };
    for &register_first in modes {
        for a in 0..PARTIES.len() {
            for b in 0..PARTIES.len() {
                v.push(CerCase { name: format!("cer/2/{a}.{b}/rf{}", register_first as u8), threads: vec![(a, 1), (b, 2)], asserts, register_first });
            }
        }
        if thorough {
            for a in 0..PARTIES.len() {
                for b in 0..PARTIES.len() {
                    for c in 0..PARTIES.len() {
                        v.push(CerCase { name: format!("cer/3/{a}.{b}.{c}/rf{}", register_first as u8), threads: vec![(a, 1), (b, 2), (c, 3)], asserts, register_first });
                    }
                }
            }
        }
    }
    v
}
fn split_transcript(t: &str, register_first: bool) -> (String, String) {
    // registration part / assertion part
    let idx = t.find("assert0").unwrap_or(t.len());
    let _ = register_first;
    (t[..idx].to_string(), t[idx..].to_string())
}
fn expected_ceremony(asserts: usize) -> BTreeMap<(usize, u8), String> {
    let out: Arc<StdMutex<BTreeMap<(usize, u8), String>>> = Arc::new(StdMutex::new(BTreeMap::new()));
    let o2 = out.clone();
    shuttle::check_dfs(
        move || {
            for p in 0..PARTIES.len() {
                for tag in 1..=3u8 {
                    let (t, _) = ceremony(p, tag, asserts, None);
                    o2.lock().unwrap().insert((p, tag), t);
                }
            }
        },
        Some(1),
    );
    let r = out.lock().unwrap().clone();
    r
}
fn run_ceremony_case(prop: &'static str, case: &CerCase, exp: &Arc<BTreeMap<(usize, u8), String>>, cap: usize, outcomes: &Arc<StdMutex<std::collections::BTreeSet<String>>>) -> (usize, bool, Option<String>) {
    let threads = case.threads.clone();
    let asserts = case.asserts;
    let rf = case.register_first;
    let exp = exp.clone();
    explore(
        cap,
        move || {
            let mut pre: Vec<Option<(String, Cl)>> = vec![];
            for &(p, tag) in &threads {
                pre.push(if rf { Some(ceremony(p, tag, 0, None)) } else { None });
            }
            let hs: Vec<_> = threads
                .iter()
                .cloned()
                .zip(pre.into_iter())
                .map(|((p, tag), pre)| {
                    shuttle::thread::spawn(move || match pre {
                        None => ceremony(p, tag, asserts, None).0,
                        Some((reg_t, cl)) => {
                            // assertions only: re-use the client that registered before the threads started
                            let (origin, rp, eff) = PARTIES[p];
                            let _ = (origin, rp, eff);
                            let mut cl = cl;
                            let mut t = reg_t;
                            t.push_str(&assertions_only(&mut cl, p, tag, asserts));
                            t
                        }
                    })
                })
                .collect();
            let mut bad = None;
            let mut obs = vec![];
            for (i, h) in hs.into_iter().enumerate() {
                let (p, tag) = threads[i];
                match h.join() {
                    Ok(t) => {
                        let want = exp.get(&(p, tag)).cloned().unwrap_or_default();
                        let (wr, wa) = split_transcript(&want, rf);
                        let (gr, ga) = split_transcript(&t, rf);
                        let (w, g) = if prop == "C02" { (wr, gr) } else { (format!("{wr}{}", strip_sig_free(&wa)), format!("{gr}{}", strip_sig_free(&ga))) };
                        if w != g && bad.is_none() {
                            bad = Some(format!("thread {i} ({}) observed [{g}] while another thread ran its own ceremony; alone it observes [{w}]", PARTIES[p].0));
                        }
                        obs.push(g);
                    }
                    Err(_) => bad = bad.or(Some(format!("thread {i} panicked outside the guarded call"))),
                }
            }
            match bad {
                Some(b) => Err(b),
                None => Ok(obs),
            }
        },
        outcomes,
    )
}
fn strip_sig_free(s: &str) -> String {
    s.to_string()
}
fn assertions_only(cl: &mut Cl, party: usize, tag: u8, asserts: usize) -> String {
    // the registration's public key is not at hand here: verify against the stored private key's public half
    let (origin, rp, eff) = PARTIES[party];
    let url = Url::parse(origin).unwrap();
    let r = catch_unwind(AssertUnwindSafe(|| {
        let mut t = String::new();
        let stored = cl.authenticator().store().clone();
        let der = stored.as_ref().and_then(|p| passkey_authenticator::public_key_der_from_cose_key(&p.key).ok());
        for i in 0..asserts {
            let a = shuttle::future::block_on(cl.authenticate(&url, request(rp, tag + i as u8), DefaultClientData));
            match a {
                Err(e) => t.push_str(&format!("assert{i}: {e:?};")),
                Ok(a) => {
                    let ad = &a.response.authenticator_data;
                    let mut msg = ad.to_vec();
                    msg.extend_from_slice(&sha256(&a.response.client_data_json));
                    let sig_ok = match &der {
                        Some(der) => {
                            use p256::ecdsa::signature::Verifier;
                            use p256::pkcs8::DecodePublicKey;
                            match (p256::ecdsa::VerifyingKey::from_public_key_der(der), p256::ecdsa::Signature::from_der(&a.response.signature)) {
                                (Ok(k), Ok(s)) => k.verify(&msg, &s).is_ok().to_string(),
                                _ => "undecodable".into(),
                            }
                        }
                        None => "no-key".into(),
                    };
                    t.push_str(&format!("assert{i}: rpIdHash_ok={} flags={:02x} counter={:?} cdj={} user={:?} sig_ok={sig_ok};", ad[..32] == sha256(eff.as_bytes())[..], ad[32], &ad[33..37], String::from_utf8_lossy(&a.response.client_data_json), a.response.user_handle.as_ref().map(|u| hex(u))));
                }
            }
        }
        t
    }));
    match r {
        Ok(s) => s,
        Err(p) => format!("PANIC: {}", panic_text(&p)),
    }
}

/// C19: registrations from two or three OS threads whose authenticators share one store through the
/// shipped lock wrapper: every successful registration's credential is present afterwards (so no
/// two of them may carry the same id).
fn run_shared_store_case(threads: usize, cap: usize, outcomes: &Arc<StdMutex<std::collections::BTreeSet<String>>>) -> (usize, bool, Option<String>) {
    explore(
        cap,
        move || {
            let store: Arc<tokio::sync::Mutex<passkey_authenticator::MemoryStore>> = Arc::new(tokio::sync::Mutex::new(Default::default()));
            let hs: Vec<_> = (0..threads)
                .map(|t| {
                    let store = store.clone();
                    shuttle::thread::spawn(move || {
                        let mut cl = Client::new(Authenticator::new(Aaguid::new_empty(), store, Uv));
                        let url = Url::parse(PARTIES[1].0).unwrap();
                        catch_unwind(AssertUnwindSafe(|| shuttle::future::block_on(cl.register(&url, creation(None, t as u8 + 1), DefaultClientData)).map(|c| c.raw_id.to_vec()).map_err(|e| format!("{e:?}")))).unwrap_or_else(|p| Err(format!("PANIC: {}", panic_text(&p))))
                    })
                })
                .collect();
            let mut ids = vec![];
            for (t, h) in hs.into_iter().enumerate() {
                match h.join() {
                    Ok(Ok(id)) => ids.push(id),
                    Ok(Err(e)) => return Err(format!("thread {t}: registration failed: {e}")),
                    Err(_) => return Err(format!("thread {t} panicked outside the guarded call")),
                }
            }
            let held: Vec<Vec<u8>> = shuttle::future::block_on(async { store.lock().await.keys().cloned().collect() });
            for (t, id) in ids.iter().enumerate() {
                if !held.contains(id) {
                    return Err(format!("the credential thread {t} registered successfully is not in the shared store afterwards"));
                }
            }
            let mut sorted = ids.clone();
            sorted.sort();
            sorted.dedup();
            if sorted.len() != ids.len() || held.len() != ids.len() {
                return Err(format!("{} successful registrations from {} threads left {} credentials in the shared store ({} distinct ids were returned)", ids.len(), threads, held.len(), sorted.len()));
            }
            Ok(vec![format!("{} credentials", held.len())])
        },
        outcomes,
    )
}

fn main() {
    let args: Vec<String> = std::env::args().collect();
    let prop: &'static str = match args.get(1).map(|s| s.as_str()) {
        Some("C01") => "C01",
        Some("C10") => "C10",
        Some("C02") => "C02",
        Some("C03") => "C03",
        Some("C19") => "C19",
        _ => {
            eprintln!("usage: vthr C01|C02|C03|C10|C19 quick|thorough [case-name]");
            std::process::exit(2);
        }
    };
    let thorough = args.get(2).map(|s| s == "thorough").unwrap_or(false);
    let only: Option<String> = args.get(3).cloned();
    let cap = if thorough { 400_000 } else { 40_000 };
    // keep the library's and shuttle's panic chatter off the terminal; failures are reported in the JSON
    if std::env::var("VTHR_VERBOSE").is_err() {
        std::panic::set_hook(Box::new(|_| {}));
    }
    let outcomes = Arc::new(StdMutex::new(std::collections::BTreeSet::new()));
    let mut st = Stats::default();
    let max_violations = 6;
    match prop {
        "C19" => {
            for threads in [2usize, 3] {
                let name = format!("shared-store/register/{threads}");
                if let Some(o) = &only {
                    if &name != o {
                        continue;
                    }
                }
                let (ex, capped, fail) = run_shared_store_case(threads, cap, &outcomes);
                st.cases += 1;
                st.executions += ex;
                st.capped_cases += capped as usize;
                st.max_executions_in_a_case = st.max_executions_in_a_case.max(ex);
                if let Some(d) = fail {
                    st.violations.push(serde_json::json!({"case": name, "detail": d, "threads": format!("{threads} registering threads")}));
                }
            }
        }
        "C01" | "C10" => {
            let cases = shared_object_cases(prop, thorough);
            let mut exp: BTreeMap<u8, Arc<BTreeMap<Op, String>>> = BTreeMap::new();
            for k in [0u8, 1, 2] {
                if (prop == "C10") == (k == 0) {
                    let ops = if k == 0 { psl_ops(NAMES, &[0, 1, 2]) } else { verifier_ops(false) };
                    exp.insert(k, Arc::new(expected(k, &ops)));
                }
            }
            for c in &cases {
                if let Some(o) = &only {
                    if &c.name != o {
                        continue;
                    }
                }
                let (ex, capped, fail) = run_shared_case(c, &exp[&c.kind], cap, &outcomes);
                st.cases += 1;
                st.executions += ex;
                st.capped_cases += capped as usize;
                st.max_executions_in_a_case = st.max_executions_in_a_case.max(ex);
                if let Some(d) = fail {
                    st.violations.push(serde_json::json!({"case": c.name, "detail": d, "threads": format!("{:?}", c.threads), "prefix": format!("{:?}", c.prefix)}));
                    if st.violations.len() >= max_violations && only.is_none() {
                        break;
                    }
                }
            }
        }
        _ => {
            let cases = ceremony_cases(prop, thorough);
            let asserts = cases.first().map(|c| c.asserts).unwrap_or(0);
            let exp = Arc::new(expected_ceremony(asserts));
            for c in &cases {
                if let Some(o) = &only {
                    if &c.name != o {
                        continue;
                    }
                }
                let (ex, capped, fail) = run_ceremony_case(prop, c, &exp, cap, &outcomes);
                st.cases += 1;
                st.executions += ex;
                st.capped_cases += capped as usize;
                st.max_executions_in_a_case = st.max_executions_in_a_case.max(ex);
                if let Some(d) = fail {
                    st.violations.push(serde_json::json!({"case": c.name, "detail": d, "threads": format!("{:?}", c.threads)}));
                    if st.violations.len() >= max_violations && only.is_none() {
                        break;
                    }
                }
            }
        }
    }
    st.outcomes = outcomes.lock().unwrap().clone();
    let out = serde_json::json!({
        "property": prop,
        "tier": if thorough { "thorough" } else { "quick" },
        "cases": st.cases,
        "executions": st.executions,
        "capped_cases": st.capped_cases,
        "cap_per_case": cap,
        "max_executions_in_a_case": st.max_executions_in_a_case,
        "distinct_observations": st.outcomes.len(),
        "violations": st.violations,
    });
    println!("{out}");
}
