//! Stand-in for `std::sync` / `core::sync` / `std::thread` in the rewritten copy of the library
//! sources (see /verif/tools/thr_rewrite.py): every primitive shuttle models resolves to shuttle's
//! version, so each operation on it is a scheduling point of the controlled scheduler; whatever
//! shuttle does not model falls through to std (and is reported as "not intercepted" by the
//! rewriter, which lists the names it saw).
pub mod sync {
    pub use std::sync::*;
    // explicit re-exports take precedence over the glob above
    pub use shuttle::sync::{
        Barrier, BarrierWaitResult, Condvar, Mutex, MutexGuard, Once, OnceState, RwLock,
        RwLockReadGuard, RwLockWriteGuard, WaitTimeoutResult,
    };
    pub mod atomic {
        pub use shuttle::sync::atomic::*;
    }
    pub mod mpsc {
        pub use shuttle::sync::mpsc::*;
    }
}
pub mod thread {
    pub use shuttle::thread::*;
}
pub use shuttle::thread_local;
pub use shuttle::lazy_static;
