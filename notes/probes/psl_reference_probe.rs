use public_suffix::{EffectiveTLDProvider, DEFAULT_PROVIDER};
use std::collections::HashMap;

// RFC 3492 punycode encoder
fn punycode(input: &str) -> String {
    let cps: Vec<u32> = input.chars().map(|c| c as u32).collect();
    let (base, tmin, tmax, skew, damp) = (36u32, 1u32, 26u32, 38u32, 700u32);
    let mut n = 128u32; let mut delta = 0u32; let mut bias = 72u32;
    let mut out: String = cps.iter().filter(|c| **c < 128).map(|c| char::from_u32(*c).unwrap()).collect();
    let b = out.len() as u32; let mut h = b;
    if b > 0 { out.push('-'); }
    let digit = |d: u32| -> char { if d < 26 { (b'a' + d as u8) as char } else { (b'0' + (d - 26) as u8) as char } };
    while (h as usize) < cps.len() {
        let m = *cps.iter().filter(|c| **c >= n).min().unwrap();
        delta += (m - n) * (h + 1); n = m;
        for &c in &cps {
            if c < n { delta += 1; }
            if c == n {
                let mut q = delta; let mut k = base;
                loop {
                    let t = if k <= bias { tmin } else if k >= bias + tmax { tmax } else { k - bias };
                    if q < t { break; }
                    out.push(digit(t + (q - t) % (base - t))); q = (q - t) / (base - t); k += base;
                }
                out.push(digit(q));
                // adapt
                let mut d = if h == b { delta / damp } else { delta / 2 };
                d += d / (h + 1);
                let mut k2 = 0;
                while d > ((base - tmin) * tmax) / 2 { d /= base - tmin; k2 += base; }
                bias = k2 + (((base - tmin + 1) * d) / (d + skew));
                delta = 0; h += 1;
            }
        }
        delta += 1; n += 1;
    }
    out
}
fn to_ascii(rule: &str) -> String { rule.split('.').map(|l| if l.is_ascii() { l.to_string() } else { format!("xn--{}", punycode(l)) }).collect::<Vec<_>>().join(".") }

#[derive(Clone, Copy, PartialEq, Debug)] enum Kind { Normal, Wildcard, Exception }
struct Psl { rules: HashMap<String, Kind> }
impl Psl {
    fn suffix_labels(&self, labels: &[&str]) -> usize { // number of labels in the public suffix
        let n = labels.len(); let mut best = 1; // implicit *
        for k in 1..=n {
            let cand = labels[n - k..].join(".");
            if let Some(kind) = self.rules.get(&cand) {
                match kind { Kind::Exception => return k - 1, Kind::Normal => best = best.max(k), Kind::Wildcard => {} }
            }
            // wildcard: *.<parent> where parent = labels[n-k+1..]
            if k >= 2 { let parent = labels[n - k + 1..].join("."); if self.rules.get(&format!("*.{parent}")) == Some(&Kind::Wildcard) { best = best.max(k); } }
        }
        best
    }
}
fn main() {
    let dat = std::fs::read_to_string("/repo/public-suffix/public_suffix_list.dat").unwrap();
    let mut psl = Psl { rules: HashMap::new() }; let mut raw = vec![]; let mut idn_mismatch = 0;
    for line in dat.lines() {
        let s = line.trim(); if s.is_empty() || s.starts_with("//") { continue }
        let s = s.split_whitespace().next().unwrap();
        let (kind, body) = if let Some(b) = s.strip_prefix('!') { (Kind::Exception, b.to_string()) } else if s.starts_with("*.") { (Kind::Wildcard, s.to_string()) } else { (Kind::Normal, s.to_string()) };
        let a = to_ascii(&body);
        if !body.is_ascii() { let lib = idna::domain_to_ascii(&body.replace("*.", "")).unwrap(); if lib != a.replace("*.", "") { idn_mismatch += 1; println!("puny mismatch {body} {a} {lib}"); } }
        psl.rules.insert(a.clone(), kind); raw.push((kind, a));
    }
    println!("rules {} idn_mismatch {idn_mismatch}", raw.len());
    let mut names = vec![];
    for (kind, r) in &raw {
        let inst: Vec<String> = match kind { Kind::Wildcard => vec![r.replacen('*', "w1", 1), r.replacen('*', "zq", 1)], _ => vec![r.clone()] };
        for i in inst {
            names.push(i.clone());
            if let Some((_, rest)) = i.split_once('.') { names.push(rest.to_string()); names.push(format!("sib9.{rest}")); }
            names.push(format!("a.{i}")); names.push(format!("b.a.{i}")); names.push(format!("c.b.a.{i}"));
        }
    }
    let mut bad = 0;
    for nme in &names {
        let labels: Vec<&str> = nme.split('.').collect();
        let k = psl.suffix_labels(&labels);
        let want_suffix = labels[labels.len() - k..].join(".");
        let got = DEFAULT_PROVIDER.public_suffix(nme);
        let want_e = if labels.len() > k { Some(labels[labels.len() - k - 1..].join(".")) } else { None };
        let got_e = DEFAULT_PROVIDER.effective_tld_plus_one(nme).ok().map(|s| s.to_string());
        if got != want_suffix || got_e != want_e { bad += 1; if bad < 10 { println!("{nme}: suffix got {got} want {want_suffix}; e+1 got {got_e:?} want {want_e:?}"); } }
    }
    println!("names {} bad {bad}", names.len());
}
