use ciborium::value::Value;
use p256::ecdsa::{signature::Verifier, Signature, VerifyingKey};
use passkey_authenticator::{Authenticator, MemoryStore, UserCheck, UserValidationMethod};
use passkey_client::{Client, DefaultClientData, DefaultClientDataWithCustomHash, DefaultClientDataWithExtra};
use passkey_types::{ctap2::{Aaguid, Ctap2Error}, webauthn::*, Passkey};
use sha2::{Digest, Sha256};
use url::Url;

struct Uv;
#[async_trait::async_trait]
impl UserValidationMethod for Uv {
    type PasskeyItem = Passkey;
    async fn check_user<'a>(&self, _c: Option<&'a Passkey>, _p: bool, _v: bool) -> Result<UserCheck, Ctap2Error> { Ok(UserCheck { presence: true, verification: true }) }
    fn is_presence_enabled(&self) -> bool { true }
    fn is_verification_enabled(&self) -> Option<bool> { Some(true) }
}
fn b64url(d: &[u8]) -> String { // own encoder
    const A: &[u8] = b"ABCDEFGHIJKLMNOPQRSTUVWXYZabcdefghijklmnopqrstuvwxyz0123456789-_";
    let mut o = String::new();
    for c in d.chunks(3) { let n = (c[0] as u32) << 16 | (*c.get(1).unwrap_or(&0) as u32) << 8 | *c.get(2).unwrap_or(&0) as u32;
        o.push(A[(n >> 18) as usize & 63] as char); o.push(A[(n >> 12) as usize & 63] as char);
        if c.len() > 1 { o.push(A[(n >> 6) as usize & 63] as char) } if c.len() > 2 { o.push(A[n as usize & 63] as char) } }
    o
}
#[derive(serde::Serialize, Clone)] struct Extra { #[serde(rename = "androidPackageName")] pkg: String, n: u32 }

#[tokio::main(flavor = "current_thread")]
async fn main() {
    let mut fails = 0; let mut n = 0;
    let challenges: Vec<Vec<u8>> = vec![vec![], vec![0xfb], vec![0xff, 0xef], vec![0xfb, 0xff, 0xbf], (0..33).map(|i| 0xf8 | i as u8).collect(), vec![0; 64]];
    let origins = [("https://example.com", None, "example.com", "https://example.com"), ("https://www.example.com:8443", Some("example.com"), "example.com", "https://www.example.com:8443"),
                   ("https://www.xn--mnchen-3ya.de", Some("xn--mnchen-3ya.de"), "xn--mnchen-3ya.de", "https://www.xn--mnchen-3ya.de")];
    for ch in &challenges { for (o, rp, eff, want_origin) in &origins { for mode in 0..3 { for counter in [false, true] {
        n += 1;
        let mut auth = Authenticator::new(Aaguid::new_empty(), MemoryStore::new(), Uv);
        auth.set_make_credentials_with_signature_counter(counter);
        let mut client = Client::new(auth);
        let origin = Url::parse(o).unwrap();
        let opts = CredentialCreationOptions { public_key: PublicKeyCredentialCreationOptions {
            rp: PublicKeyCredentialRpEntity { id: rp.map(|s: &str| s.to_string()), name: "n".into() },
            user: PublicKeyCredentialUserEntity { id: vec![1, 2, 3].into(), display_name: "Ünï".into(), name: "名前".into() },
            challenge: ch.clone().into(), pub_key_cred_params: vec![PublicKeyCredentialParameters { ty: PublicKeyCredentialType::PublicKey, alg: coset::iana::Algorithm::RS256 }, PublicKeyCredentialParameters { ty: PublicKeyCredentialType::PublicKey, alg: coset::iana::Algorithm::ES256 }],
            timeout: None, exclude_credentials: None, authenticator_selection: None, hints: None, attestation: Default::default(), attestation_formats: None, extensions: None } };
        let custom = vec![7u8; 32];
        let cred = match mode { 0 => client.register(&origin, opts, DefaultClientData).await, 1 => client.register(&origin, opts, DefaultClientDataWithExtra(Extra { pkg: "com.x".into(), n: 5 })).await, _ => client.register(&origin, opts, DefaultClientDataWithCustomHash(custom.clone())).await }.unwrap();
        let cd: serde_json::Value = serde_json::from_slice(&cred.response.client_data_json).unwrap();
        let mut ok = cd["type"] == "webauthn.create" && cd["challenge"] == b64url(ch) && cd["origin"] == *want_origin;
        let att: Value = ciborium::de::from_reader(cred.response.attestation_object.as_slice()).unwrap();
        let m = att.as_map().unwrap();
        let get = |k: &str| m.iter().find(|(kk, _)| kk.as_text() == Some(k)).map(|(_, v)| v.clone()).unwrap();
        ok &= get("fmt").as_text() == Some("none") && get("attStmt").as_map().map(|m| m.is_empty()) == Some(true);
        let ad = get("authData").as_bytes().unwrap().clone();
        ok &= ad == *cred.response.authenticator_data;
        ok &= ad[..32] == Sha256::digest(eff.as_bytes())[..];
        ok &= ad[32] & 0x40 != 0;
        let idlen = u16::from_be_bytes([ad[53], ad[54]]) as usize;
        let id = &ad[55..55 + idlen];
        ok &= id == cred.raw_id.as_slice() && cred.id == b64url(id) && idlen == 16;
        let key: Value = ciborium::de::from_reader(&ad[55 + idlen..]).unwrap();
        let km = key.as_map().unwrap();
        let lab = |l: i128| km.iter().find(|(k, _)| k.as_integer().map(i128::from) == Some(l)).map(|(_, v)| v.clone());
        ok &= km.len() == 5 && lab(1).unwrap().as_integer().map(i128::from) == Some(2) && lab(3).unwrap().as_integer().map(i128::from) == Some(-7) && lab(-1).unwrap().as_integer().map(i128::from) == Some(1) && lab(-4).is_none();
        let (x, y) = (lab(-2).unwrap().as_bytes().unwrap().clone(), lab(-3).unwrap().as_bytes().unwrap().clone());
        let mut sec1 = vec![4u8]; sec1.extend(&x); sec1.extend(&y);
        let vk = VerifyingKey::from_sec1_bytes(&sec1).unwrap();
        let mut spki = vec![0x30, 0x59, 0x30, 0x13, 0x06, 0x07, 0x2a, 0x86, 0x48, 0xce, 0x3d, 0x02, 0x01, 0x06, 0x08, 0x2a, 0x86, 0x48, 0xce, 0x3d, 0x03, 0x01, 0x07, 0x03, 0x42, 0x00]; spki.extend(&sec1);
        ok &= cred.response.public_key.as_ref().map(|b| b.to_vec()) == Some(spki) && cred.response.public_key_algorithm == -7;
        let store = client.authenticator().store();
        ok &= store.len() == 1;
        let pk = store.values().next().unwrap();
        ok &= pk.rp_id == *eff && pk.credential_id.as_slice() == id && pk.counter == counter.then_some(0);
        // authenticate
        let ropts = CredentialRequestOptions { public_key: PublicKeyCredentialRequestOptions { challenge: ch.clone().into(), timeout: None, rp_id: rp.map(|s| s.to_string()),
            allow_credentials: Some(vec![PublicKeyCredentialDescriptor { ty: PublicKeyCredentialType::PublicKey, id: id.to_vec().into(), transports: None }]), user_verification: Default::default(), hints: None, attestation: Default::default(), attestation_formats: None, extensions: None } };
        let a = match mode { 0 => client.authenticate(&origin, ropts, DefaultClientData).await, 1 => client.authenticate(&origin, ropts, DefaultClientDataWithExtra(Extra { pkg: "com.x".into(), n: 5 })).await, _ => client.authenticate(&origin, ropts, DefaultClientDataWithCustomHash(custom.clone())).await }.unwrap();
        let cd: serde_json::Value = serde_json::from_slice(&a.response.client_data_json).unwrap();
        ok &= cd["type"] == "webauthn.get" && cd["challenge"] == b64url(ch) && cd["origin"] == *want_origin;
        let mut msg = a.response.authenticator_data.to_vec();
        ok &= msg[..32] == Sha256::digest(eff.as_bytes())[..] && msg[32] & 0x40 == 0 && msg.len() == 37;
        ok &= u32::from_be_bytes(msg[33..37].try_into().unwrap()) == if counter { 1 } else { 0 };
        if mode == 2 { msg.extend(&custom) } else { msg.extend(Sha256::digest(&*a.response.client_data_json)) }
        let sig = Signature::from_der(&a.response.signature).unwrap();
        ok &= vk.verify(&msg, &sig).is_ok();
        ok &= a.raw_id.as_slice() == id && a.id == b64url(id) && a.response.user_handle.as_ref().map(|b| b.to_vec()) == Some(vec![1, 2, 3]);
        let js = serde_json::to_string(&cred).unwrap(); let back: CreatedPublicKeyCredential = serde_json::from_str(&js).unwrap(); ok &= format!("{back:?}") == format!("{cred:?}");
        if !ok { fails += 1; println!("FAIL ch={} o={o} mode={mode}", ch.len()); }
    } } } }
    println!("cases {n} fails {fails}");
}
